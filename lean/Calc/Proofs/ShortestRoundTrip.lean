/-
  Calc.Proofs.ShortestRoundTrip — the digits `Calc.Exec.shortestDigits` prints for a positive
  finite binary64 read back (`Calc.Exec.decimalToBits`) to the same bit pattern.
-/
import Calc.Proofs.DecimalRound

namespace Calc.Proofs.ShortestRoundTrip
open Calc Calc.Exec Calc.Proofs.DecimalRound

set_option exponentiation.threshold 2100

/-! ### neighbours of a finite pattern -/

/-- value of the pattern numbered `n` -/
def valN (n : Nat) : ℚ := (sig n : ℚ) * (2 : ℚ) ^ (expo n)

theorem valN_succ (n : Nat) : valN (n + 1) = valN n + (2 : ℚ) ^ (expo n) := by
  unfold valN
  by_cases hF : n % 2 ^ 52 = 2 ^ 52 - 1
  · -- carry into the exponent field
    have h1 : (n + 1) / 2 ^ 52 = n / 2 ^ 52 + 1 := by omega
    have h2 : (n + 1) % 2 ^ 52 = 0 := by omega
    by_cases hE : n / 2 ^ 52 = 0
    · have s1 : sig (n + 1) = sig n + 1 := by unfold sig; rw [h1, h2, hE, hF]; norm_num
      have s2 : expo (n + 1) = expo n := by unfold expo; rw [h1, hE]; norm_num
      rw [s1, s2]; push_cast; ring
    · have s1 : sig (n + 1) = 2 ^ 52 := by unfold sig; rw [h1, h2]; simp
      have s1' : sig n = 2 ^ 53 - 1 := by unfold sig; rw [if_neg hE, hF]; norm_num
      have s2 : expo (n + 1) = expo n + 1 := by unfold expo; rw [h1]; omega
      rw [s1, s1', s2, zpow_add₀ (by norm_num)]; push_cast; ring
  · have h1 : (n + 1) / 2 ^ 52 = n / 2 ^ 52 := by omega
    have h2 : (n + 1) % 2 ^ 52 = n % 2 ^ 52 + 1 := by omega
    have s1 : sig (n + 1) = sig n + 1 := by
      unfold sig; rw [h1, h2]; split <;> omega
    have s2 : expo (n + 1) = expo n := by unfold expo; rw [h1]
    rw [s1, s2]; push_cast; ring

theorem valN_lt_succ (n : Nat) : valN n < valN (n + 1) := by
  rw [valN_succ]; have : (0 : ℚ) < (2 : ℚ) ^ (expo n) := by positivity
  linarith

theorem valN_mono {a b : Nat} (h : a ≤ b) : valN a ≤ valN b := by
  induction b with
  | zero => have : a = 0 := by omega
            rw [this]
  | succ b ih =>
    rcases Nat.lt_or_ge a (b + 1) with h' | h'
    · exact le_trans (ih (by omega)) (valN_lt_succ b).le
    · have : a = b + 1 := by omega
      rw [this]

theorem bitsVal_eq_valN (b : UInt64) (hb : b.toNat < 2047 * 2 ^ 52) : bitsVal b = valN b.toNat := by
  unfold bitsVal valN; rw [bitsToRat_fin _ hb]

theorem valN_top : valN (2047 * 2 ^ 52) = (2 : ℚ) ^ 1024 := by
  unfold valN
  have s1 : sig (2047 * 2 ^ 52) = 2 ^ 52 := by decide
  have s2 : expo (2047 * 2 ^ 52) = 972 := by decide
  rw [s1, s2]; norm_num

theorem expo_top : expo (2047 * 2 ^ 52 - 1) = 971 := by decide

theorem expo_mono {a b : Nat} (h : a ≤ b) : expo a ≤ expo b := by
  have : a / 2 ^ 52 ≤ b / 2 ^ 52 := Nat.div_le_div_right h
  unfold expo; omega

/-- the rounding interval of the pattern numbered `n`: between the midpoints to its neighbours -/
theorem interval_unique (n : Nat) (hn0 : 0 < n) (hn : n < 2047 * 2 ^ 52) (x : ℚ)
    (hlo : valN n - (2 : ℚ) ^ (expo (n - 1)) / 2 ≤ x)
    (hhi : x ≤ valN n + (2 : ℚ) ^ (expo n) / 2)
    (hlo' : n % 2 = 1 → valN n - (2 : ℚ) ^ (expo (n - 1)) / 2 < x)
    (hhi' : n % 2 = 1 → x < valN n + (2 : ℚ) ^ (expo n) / 2)
    (b1 : UInt64) (h : IsRN x b1) : b1.toNat = n := by
  obtain ⟨b, hb⟩ : ∃ b : UInt64, b.toNat = n := ⟨n.toUInt64, toUInt64_toNat n (by omega)⟩
  have hbfin : b < 0x7FF0000000000000 := by rw [UInt64.lt_iff_toNat_lt, inf_toNat, hb]; exact hn
  have hbv : bitsVal b = valN n := by rw [bitsVal_eq_valN b (by rw [hb]; exact hn), hb]
  have hu : (0 : ℚ) < (2 : ℚ) ^ (expo n) := by positivity
  have hul : (0 : ℚ) < (2 : ℚ) ^ (expo (n - 1)) := by positivity
  have hsucc := valN_succ n
  have hpred : valN n = valN (n - 1) + (2 : ℚ) ^ (expo (n - 1)) := by
    have := valN_succ (n - 1)
    rwa [show n - 1 + 1 = n by omega] at this
  -- x is below the overflow threshold
  have hxthr : x < (2 : ℚ) ^ 1024 - 2 ^ 970 := by
    by_cases hmax : n = 2047 * 2 ^ 52 - 1
    · have hodd : n % 2 = 1 := by omega
      have h1 := hhi' hodd
      have h2 : valN (n + 1) = (2 : ℚ) ^ 1024 := by
        rw [hmax]; exact valN_top
      have h3 : expo n = 971 := by rw [hmax]; exact expo_top
      rw [h3] at h1 hsucc
      have e : (2 : ℚ) ^ (971 : ℤ) = 2 * 2 ^ 970 := by norm_num
      linarith
    · have h1 : valN (n + 1) ≤ valN (2047 * 2 ^ 52 - 1) := valN_mono (by omega)
      have h2 := valN_succ (2047 * 2 ^ 52 - 1)
      rw [show 2047 * 2 ^ 52 - 1 + 1 = 2047 * 2 ^ 52 by norm_num, valN_top, expo_top] at h2
      have e : (2 : ℚ) ^ (971 : ℤ) = 2 * 2 ^ 970 := by norm_num
      have h970 : (0 : ℚ) < 2 ^ 970 := by positivity
      linarith
  have hb1fin : b1 < 0x7FF0000000000000 := by
    rcases Nat.lt_or_ge b1.toNat (2047 * 2 ^ 52) with h' | h'
    · rw [UInt64.lt_iff_toNat_lt, inf_toNat]; exact h'
    · have := h.le_inf
      rw [UInt64.le_iff_toNat_le, inf_toNat] at this
      have : b1 = 0x7FF0000000000000 := UInt64.toNat_inj.1 (by rw [inf_toNat]; omega)
      exact absurd (h.inf_iff.1 this) (not_le.2 hxthr)
  have hb1n : b1.toNat < 2047 * 2 ^ 52 := by
    rw [UInt64.lt_iff_toNat_lt, inf_toNat] at hb1fin; exact hb1fin
  have hb1v : bitsVal b1 = valN b1.toNat := bitsVal_eq_valN b1 hb1n
  have hnear := h.nearest hb1fin b hbfin
  rw [hbv, hb1v] at hnear
  by_contra hne
  have hbne : b ≠ b1 := fun hh => hne (by rw [← hh, hb])
  have hties := h.ties hb1fin b hbfin hbne
  rw [hbv, hb1v] at hties
  rcases Nat.lt_or_gt_of_ne hne with hlt | hgt
  · -- b1 below
    have h1 : valN b1.toNat ≤ valN (n - 1) := valN_mono (by omega)
    rcases le_or_gt x (valN n) with hx | hx
    · -- x ≤ v
      have a1 : |valN n - x| = valN n - x := abs_of_nonneg (by linarith)
      have a2 : x - valN b1.toNat ≤ |valN b1.toNat - x| := by rw [abs_sub_comm]; exact le_abs_self _
      rw [a1] at hnear
      -- forces x = lo and b1 = n - 1
      have hxeq : x = valN n - (2 : ℚ) ^ (expo (n - 1)) / 2 := by linarith
      have hev : n % 2 = 0 := by
        by_contra ho
        have := hlo' (by omega)
        linarith
      have hv1 : valN b1.toNat = valN (n - 1) := by linarith
      have hb1eq : b1.toNat = n - 1 := sig_expo_inj _ _ hv1
      have a3 : |valN b1.toNat - x| = x - valN b1.toNat := by
        rw [abs_sub_comm]; exact abs_of_nonneg (by linarith)
      have := hties (by rw [a1, a3]; linarith)
      omega
    · have a1 : |valN n - x| = x - valN n := by rw [abs_sub_comm]; exact abs_of_nonneg (by linarith)
      have a2 : x - valN b1.toNat ≤ |valN b1.toNat - x| := by rw [abs_sub_comm]; exact le_abs_self _
      rw [a1] at hnear
      linarith
  · -- b1 above
    have h1 : valN (n + 1) ≤ valN b1.toNat := valN_mono (by omega)
    rcases le_or_gt (valN n) x with hx | hx
    · have a1 : |valN n - x| = x - valN n := by rw [abs_sub_comm]; exact abs_of_nonneg (by linarith)
      have a2 : valN b1.toNat - x ≤ |valN b1.toNat - x| := le_abs_self _
      rw [a1] at hnear
      have hxeq : x = valN n + (2 : ℚ) ^ (expo n) / 2 := by linarith
      have hev : n % 2 = 0 := by
        by_contra ho
        have := hhi' (by omega)
        linarith
      have hv1 : valN b1.toNat = valN (n + 1) := by linarith
      have hb1eq : b1.toNat = n + 1 := sig_expo_inj _ _ hv1
      have a3 : |valN b1.toNat - x| = valN b1.toNat - x := abs_of_nonneg (by linarith)
      have := hties (by rw [a1, a3]; linarith)
      omega
    · have a1 : |valN n - x| = valN n - x := abs_of_nonneg (by linarith)
      have a2 : valN b1.toNat - x ≤ |valN b1.toNat - x| := le_abs_self _
      rw [a1] at hnear
      linarith

set_option exponentiation.threshold 2100

/-! ### the printer's view of a pattern -/

theorem efield (b : UInt64) : ((b >>> 52) &&& 0x7FF).toNat = b.toNat / 2 ^ 52 % 2 ^ 11 := by
  rw [UInt64.toNat_and, UInt64.toNat_shiftRight]
  have : (0x7FF : UInt64).toNat = 2 ^ 11 - 1 := by decide
  rw [this, Nat.and_two_pow_sub_one_eq_mod, Nat.shiftRight_eq_div_pow]
  rfl

theorem ffield (b : UInt64) : (b &&& 0xFFFFFFFFFFFFF).toNat = b.toNat % 2 ^ 52 := by
  rw [UInt64.toNat_and]
  have : (0xFFFFFFFFFFFFF : UInt64).toNat = 2 ^ 52 - 1 := by decide
  rw [this, Nat.and_two_pow_sub_one_eq_mod]

/-- quarter-ulp unit numerator -/
def uOf (ex : Int) : Nat := if ex - 2 ≥ 0 then 2 ^ (ex - 2).toNat else 1
/-- common denominator -/
def dOf (ex : Int) : Nat := if ex - 2 ≥ 0 then 1 else 2 ^ (2 - ex).toNat

theorem uOf_dOf (ex : Int) : 0 < dOf ex ∧ 0 < uOf ex ∧ (uOf ex : ℚ) / dOf ex = (2 : ℚ) ^ (ex - 2) := by
  unfold uOf dOf
  by_cases h : ex - 2 ≥ 0
  · rw [if_pos h, if_pos h]
    obtain ⟨k, hk⟩ := Int.eq_ofNat_of_zero_le h
    refine ⟨by decide, Nat.pow_pos (by decide), ?_⟩
    rw [hk]; simp [zpow_natCast]
  · rw [if_neg h, if_neg h]
    obtain ⟨k, hk⟩ : ∃ k : ℕ, ex - 2 = -(k : ℤ) := ⟨(-(ex - 2)).toNat, by omega⟩
    refine ⟨Nat.pow_pos (by decide), by decide, ?_⟩
    have : 2 - ex = (k : ℤ) := by omega
    rw [hk, this]; simp [zpow_neg, zpow_natCast]

theorem sdCtx_eq (b : UInt64) (hn : b.toNat < 2047 * 2 ^ 52) :
    sdCtx b =
      { vn := 4 * sig b.toNat * uOf (expo b.toNat),
        hn := 4 * sig b.toNat * uOf (expo b.toNat) + 2 * uOf (expo b.toNat),
        ln := 4 * sig b.toNat * uOf (expo b.toNat) -
          (if (decide (b.toNat % 2 ^ 52 = 0) && decide (b.toNat / 2 ^ 52 > 1)) = true
            then uOf (expo b.toNat) else 2 * uOf (expo b.toNat)),
        D := dOf (expo b.toNat),
        incl := decide (sig b.toNat % 2 = 0),
        p := floorLog10 (4 * sig b.toNat * uOf (expo b.toNat)) (dOf (expo b.toNat)) } := by
  have he : b.toNat / 2 ^ 52 % 2 ^ 11 = b.toNat / 2 ^ 52 := by omega
  have hex : (if b.toNat / 2 ^ 52 = 0 then (-1074 : ℤ) else ((b.toNat / 2 ^ 52 : ℕ) : ℤ) - 1075)
      = expo b.toNat := by unfold expo; split <;> omega
  unfold sdCtx
  simp only [efield, ffield, he, hex]
  rfl

set_option exponentiation.threshold 2100

theorem sig_pos (n : Nat) (hn0 : 0 < n) : 0 < sig n := by
  unfold sig; split <;> omega

theorem expo_pred (n : Nat) (hn0 : 0 < n) :
    expo (n - 1) = if (decide (n % 2 ^ 52 = 0) && decide (n / 2 ^ 52 > 1)) = true then expo n - 1 else expo n := by
  unfold expo
  by_cases h : n % 2 ^ 52 = 0 ∧ n / 2 ^ 52 > 1
  · have : (decide (n % 2 ^ 52 = 0) && decide (n / 2 ^ 52 > 1)) = true := by
      simp only [Bool.and_eq_true, decide_eq_true_eq]; exact h
    rw [if_pos this]
    have : (n - 1) / 2 ^ 52 = n / 2 ^ 52 - 1 := by omega
    omega
  · have : ¬ (decide (n % 2 ^ 52 = 0) && decide (n / 2 ^ 52 > 1)) = true := by
      simp only [Bool.and_eq_true, decide_eq_true_eq]; exact h
    rw [if_neg this]
    by_cases h1 : n % 2 ^ 52 = 0
    · have : n / 2 ^ 52 = 1 := by omega
      have : (n - 1) / 2 ^ 52 = 0 := by omega
      omega
    · have : (n - 1) / 2 ^ 52 = n / 2 ^ 52 := by omega
      omega

/-- what the proof needs of the printer's context for the pattern numbered `n` -/
structure CtxOK (x : SDCtx) (n : Nat) : Prop where
  Dpos : 0 < x.D
  vpos : 0 < x.vn
  v : (x.vn : ℚ) / x.D = valN n
  hi : (x.hn : ℚ) / x.D = valN n + (2 : ℚ) ^ (expo n) / 2
  lo : (x.ln : ℚ) / x.D = valN n - (2 : ℚ) ^ (expo (n - 1)) / 2
  incl : x.incl = decide (n % 2 = 0)

theorem sdCtx_ok (b : UInt64) (hn0 : 0 < b.toNat) (hn : b.toNat < 2047 * 2 ^ 52) :
    CtxOK (sdCtx b) b.toNat := by
  rw [sdCtx_eq b hn]
  obtain ⟨n, hnn⟩ : ∃ n, n = b.toNat := ⟨_, rfl⟩
  rw [← hnn] at hn0 hn ⊢
  obtain ⟨hD, hU, hUD⟩ := uOf_dOf (expo n)
  have hD' : (0 : ℚ) < dOf (expo n) := by exact_mod_cast hD
  have hs := sig_pos n hn0
  have hUD' : (uOf (expo n) : ℚ) = (2 : ℚ) ^ (expo n - 2) * dOf (expo n) := by
    rw [← hUD]; field_simp
  have e2 : (2 : ℚ) ^ (expo n - 2) = (2 : ℚ) ^ (expo n) / 4 := by
    rw [zpow_sub₀ (by norm_num)]; norm_num
  have hv : ((4 * sig n * uOf (expo n) : ℕ) : ℚ) / dOf (expo n) = valN n := by
    unfold valN; push_cast; rw [hUD', e2]; field_simp
  refine ⟨hD, by positivity, hv, ?_, ?_, ?_⟩
  · show ((4 * sig n * uOf (expo n) + 2 * uOf (expo n) : ℕ) : ℚ) / dOf (expo n) = _
    rw [Nat.cast_add, add_div, hv]; push_cast; rw [hUD', e2]; field_simp; ring
  · show ((4 * sig n * uOf (expo n) - _ : ℕ) : ℚ) / dOf (expo n) = _
    rw [expo_pred n hn0]
    have hle : ∀ t, t ≤ 2 * uOf (expo n) → t ≤ 4 * sig n * uOf (expo n) := by
      intro t ht
      have h1 : 1 * uOf (expo n) ≤ sig n * uOf (expo n) := Nat.mul_le_mul_right _ hs
      have h2 : 4 * sig n * uOf (expo n) = 4 * (sig n * uOf (expo n)) := Nat.mul_assoc _ _ _
      omega
    split
    · rw [Nat.cast_sub (hle _ (by omega)), sub_div, hv]
      rw [hUD', e2, zpow_sub₀ (by norm_num)]; field_simp; ring
    · rw [Nat.cast_sub (hle _ (by omega)), sub_div, hv]
      push_cast
      rw [hUD', e2]; field_simp; ring
  · show decide (sig n % 2 = 0) = decide (n % 2 = 0)
    have : sig n % 2 = n % 2 := by unfold sig; split <;> omega
    rw [this]

set_option exponentiation.threshold 2100

/-! ### candidates lie in the rounding interval -/

/-- the pair `(scaleN, scaleD)` used for the decimal exponent `k` is `10^k` -/
theorem scale_spec (k : Int) :
    0 < (if k ≥ 0 then pow10 k.toNat else 1) ∧ 0 < (if k ≥ 0 then 1 else pow10 (-k).toNat) ∧
    (((if k ≥ 0 then pow10 k.toNat else 1 : ℕ) : ℚ)) / ((if k ≥ 0 then 1 else pow10 (-k).toNat : ℕ) : ℚ)
      = (10 : ℚ) ^ k := by
  unfold pow10
  by_cases h : k ≥ 0
  · obtain ⟨j, rfl⟩ := Int.eq_ofNat_of_zero_le h
    rw [if_pos h, if_pos h]
    refine ⟨Nat.pow_pos (by decide), by decide, ?_⟩
    simp [zpow_natCast]
  · obtain ⟨j, rfl⟩ : ∃ j : ℕ, k = -(j : ℤ) := ⟨(-k).toNat, by omega⟩
    rw [if_neg h, if_neg h]
    refine ⟨by decide, Nat.pow_pos (by decide), ?_⟩
    simp [zpow_neg, zpow_natCast]

theorem sdCandAt_some (x : SDCtx) (k : Int) (sN sD c : Nat) (k' : Int)
    (h : sdCandAt x k sN sD = some (c, k')) :
    k' = k ∧ 0 < c ∧ sdInside x sN sD c = true := by
  unfold sdCandAt at h
  simp only [] at h
  by_cases h1 : ((decide ((x.vn * sD) / (x.D * sN) > 0) && sdInside x sN sD ((x.vn * sD) / (x.D * sN))) &&
      sdInside x sN sD ((x.vn * sD) / (x.D * sN) + 1)) = true
  · rw [if_pos h1] at h
    simp only [Bool.and_eq_true, decide_eq_true_eq] at h1
    obtain ⟨⟨p0, p1⟩, p2⟩ := h1
    simp only [Option.some.injEq, Prod.mk.injEq] at h
    obtain ⟨hc, hk⟩ := h
    rw [← hk, ← hc]
    refine ⟨rfl, ?_⟩
    split
    · exact ⟨p0, p1⟩
    · exact ⟨Nat.succ_pos _, p2⟩
  · rw [if_neg h1] at h
    by_cases h2 : (decide ((x.vn * sD) / (x.D * sN) > 0) && sdInside x sN sD ((x.vn * sD) / (x.D * sN))) = true
    · rw [if_pos h2] at h
      simp only [Bool.and_eq_true, decide_eq_true_eq] at h2
      simp only [Option.some.injEq, Prod.mk.injEq] at h
      obtain ⟨hc, hk⟩ := h
      rw [← hk, ← hc]
      exact ⟨rfl, h2⟩
    · rw [if_neg h2] at h
      by_cases h3 : sdInside x sN sD ((x.vn * sD) / (x.D * sN) + 1) = true
      · rw [if_pos h3] at h
        simp only [Option.some.injEq, Prod.mk.injEq] at h
        obtain ⟨hc, hk⟩ := h
        rw [← hk, ← hc]
        exact ⟨rfl, Nat.succ_pos _, h3⟩
      · rw [if_neg h3] at h
        exact absurd h (by simp)

theorem sdInside_bounds (x : SDCtx) (n : Nat) (ok : CtxOK x n) (sN sD c : Nat) (hsD : 0 < sD)
    (h : sdInside x sN sD c = true) :
    valN n - (2 : ℚ) ^ (expo (n - 1)) / 2 ≤ (c : ℚ) * ((sN : ℚ) / sD) ∧
    (c : ℚ) * ((sN : ℚ) / sD) ≤ valN n + (2 : ℚ) ^ (expo n) / 2 ∧
    (n % 2 = 1 → valN n - (2 : ℚ) ^ (expo (n - 1)) / 2 < (c : ℚ) * ((sN : ℚ) / sD)) ∧
    (n % 2 = 1 → (c : ℚ) * ((sN : ℚ) / sD) < valN n + (2 : ℚ) ^ (expo n) / 2) := by
  have hD : (0 : ℚ) < x.D := by exact_mod_cast ok.Dpos
  have hsD' : (0 : ℚ) < sD := by exact_mod_cast hsD
  rw [← ok.lo, ← ok.hi]
  have key1 : ∀ a : ℕ, (a * sD ≤ c * (sN * x.D) ↔ (a : ℚ) / x.D ≤ (c : ℚ) * ((sN : ℚ) / sD)) := by
    intro a
    rw [← mul_div_assoc, div_le_div_iff₀ hD hsD']
    constructor
    · intro h; have : ((a * sD : ℕ) : ℚ) ≤ ((c * (sN * x.D) : ℕ) : ℚ) := by exact_mod_cast h
      push_cast at this; linarith
    · intro h; have : ((a * sD : ℕ) : ℚ) ≤ ((c * (sN * x.D) : ℕ) : ℚ) := by push_cast; linarith
      exact_mod_cast this
  have key2 : ∀ a : ℕ, (c * (sN * x.D) ≤ a * sD ↔ (c : ℚ) * ((sN : ℚ) / sD) ≤ (a : ℚ) / x.D) := by
    intro a
    rw [← mul_div_assoc, div_le_div_iff₀ hsD' hD]
    constructor
    · intro h; have : ((c * (sN * x.D) : ℕ) : ℚ) ≤ ((a * sD : ℕ) : ℚ) := by exact_mod_cast h
      push_cast at this; linarith
    · intro h; have : ((c * (sN * x.D) : ℕ) : ℚ) ≤ ((a * sD : ℕ) : ℚ) := by push_cast; linarith
      exact_mod_cast this
  unfold sdInside at h
  simp only [Nat.mul_assoc c sN x.D] at h
  rw [ok.incl] at h
  by_cases hev : n % 2 = 0
  · rw [if_pos (by simp [hev])] at h
    simp only [Bool.and_eq_true, decide_eq_true_eq] at h
    exact ⟨(key1 _).1 h.1, (key2 _).1 h.2, fun ho => by omega, fun ho => by omega⟩
  · rw [if_neg (by simp [hev])] at h
    simp only [Bool.and_eq_true, decide_eq_true_eq] at h
    have l1 : (x.ln : ℚ) / x.D < (c : ℚ) * ((sN : ℚ) / sD) := by
      by_contra hcon
      exact absurd ((key2 _).2 (not_lt.1 hcon)) (Nat.not_le.2 h.1)
    have l2 : (c : ℚ) * ((sN : ℚ) / sD) < (x.hn : ℚ) / x.D := by
      by_contra hcon
      exact absurd ((key1 _).2 (not_lt.1 hcon)) (Nat.not_le.2 h.2)
    exact ⟨l1.le, l2.le, fun _ => l1, fun _ => l2⟩

/-! ### stripping trailing zeros keeps the value -/

theorem stripZeros_spec (fuel c : Nat) (k : Int) (hc : 0 < c) :
    0 < (stripZeros fuel c k).1 ∧ decVal (stripZeros fuel c k).1 (stripZeros fuel c k).2 = decVal c k := by
  induction fuel generalizing c k with
  | zero => exact ⟨hc, rfl⟩
  | succ f ih =>
    unfold stripZeros
    split
    · rename_i h
      have h' : c % 10 = 0 := by
        simp only [Bool.and_eq_true, decide_eq_true_eq] at h; exact h.2
      obtain ⟨a, b⟩ := ih (c / 10) (k + 1) (by omega)
      refine ⟨a, ?_⟩
      rw [b]
      unfold decVal
      have hc10 : (c : ℚ) = 10 * ((c / 10 : ℕ) : ℚ) := by
        have : c = 10 * (c / 10) := by omega
        exact_mod_cast this
      rw [hc10, zpow_add₀ (by norm_num), zpow_one]
      rw [show (10 * ((c / 10 : ℕ) : ℚ)) = ((10 * (c / 10) : ℕ) : ℚ) by push_cast; ring]
      push_cast
      ring
    · exact ⟨hc, rfl⟩

set_option exponentiation.threshold 2100

/-! ### the round trip, given that the search found a candidate -/

/-- the digit search of `shortestDigits` found a candidate with at most 17 digits -/
def shortestDigits_found (b : UInt64) : Prop := (sdSearch (sdCtx b)).isSome = true

theorem roundtrip_of_candidate (b : UInt64) (hb0 : 0 < b) (hb : b < 0x7FF0000000000000)
    (c : Nat) (k : Int)
    (hin : sdInside (sdCtx b) (if k ≥ 0 then pow10 k.toNat else 1) (if k ≥ 0 then 1 else pow10 (-k).toNat) c = true)
    (c' : Nat) (k' : Int) (hval : decVal c' k' = decVal c k) :
    decimalToBits c' k' = b := by
  have hn0 : 0 < b.toNat := by
    have := UInt64.lt_iff_toNat_lt.1 hb0; simpa using this
  have hn : b.toNat < 2047 * 2 ^ 52 := by
    have := UInt64.lt_iff_toNat_lt.1 hb; rwa [inf_toNat] at this
  have ok := sdCtx_ok b hn0 hn
  obtain ⟨s1, s2, s3⟩ := scale_spec k
  obtain ⟨i1, i2, i3, i4⟩ := sdInside_bounds _ _ ok _ _ c s2 hin
  rw [s3] at i1 i2 i3 i4
  have hx : decVal c' k' = (c : ℚ) * (10 : ℚ) ^ k := hval
  have := interval_unique b.toNat hn0 hn (decVal c' k') (by rw [hx]; exact i1) (by rw [hx]; exact i2)
    (by rw [hx]; exact i3) (by rw [hx]; exact i4) _ (decimalToBits_isRN c' k')
  exact UInt64.toNat_inj.1 this

theorem shortest_roundtrip_partial (b : UInt64) (hb0 : 0 < b) (hb : b < 0x7FF0000000000000)
    (hfound : shortestDigits_found b) :
    decimalToBits (shortestDigits b).1 (shortestDigits b).2 = b := by
  unfold shortestDigits_found at hfound
  obtain ⟨⟨c, k⟩, hs⟩ := Option.isSome_iff_exists.1 hfound
  obtain ⟨j, _, hj⟩ := List.exists_of_findSome?_eq_some hs
  unfold sdCand at hj
  obtain ⟨hk, hc, hin⟩ := sdCandAt_some _ _ _ _ _ _ hj
  have hsd : shortestDigits b = stripZeros 20 c k := by
    unfold shortestDigits; rw [hs]
  rw [hsd]
  obtain ⟨_, hv⟩ := stripZeros_spec 20 c k hc
  rw [← hk] at hin
  exact roundtrip_of_candidate b hb0 hb c k hin _ _ hv

set_option exponentiation.threshold 2100

/-! ### `floorLog10` never over-estimates -/

theorem geP10_iff (num den : Nat) (p : Int) (hden : 0 < den) :
    geP10 num den p = true ↔ (10 : ℚ) ^ p ≤ (num : ℚ) / den := by
  have hden' : (0 : ℚ) < den := by exact_mod_cast hden
  unfold geP10 pow10
  by_cases h : p ≥ 0
  · obtain ⟨j, rfl⟩ := Int.eq_ofNat_of_zero_le h
    rw [if_pos h, le_div_iff₀ hden', decide_eq_true_eq, Int.toNat_natCast, zpow_natCast]
    exact_mod_cast Iff.rfl
  · obtain ⟨j, rfl⟩ : ∃ j : ℕ, p = -(j : ℤ) := ⟨(-p).toNat, by omega⟩
    rw [if_neg h, decide_eq_true_eq, neg_neg, Int.toNat_natCast, zpow_neg, zpow_natCast,
      le_div_iff₀ hden', inv_mul_le_iff₀' (by positivity)]
    exact_mod_cast Iff.rfl

theorem pow2_frac (t : Int) :
    0 < (if t ≥ 0 then 1 else 2 ^ (-t).toNat : ℕ) ∧
    ((if t ≥ 0 then 2 ^ t.toNat else 1 : ℕ) : ℚ) / ((if t ≥ 0 then 1 else 2 ^ (-t).toNat : ℕ) : ℚ)
      = (2 : ℚ) ^ t := by
  by_cases h : t ≥ 0
  · obtain ⟨j, rfl⟩ := Int.eq_ofNat_of_zero_le h
    rw [if_pos h, if_pos h]
    exact ⟨by decide, by simp [zpow_natCast]⟩
  · obtain ⟨j, rfl⟩ : ∃ j : ℕ, t = -(j : ℤ) := ⟨(-t).toNat, by omega⟩
    rw [if_neg h, if_neg h]
    exact ⟨Nat.pow_pos (by decide), by simp [zpow_neg, zpow_natCast]⟩

/-- the estimate used by `floorLog10`, checked on the power of two `2^t`, `t = l − 1` -/
def estCheck (i : Nat) : Bool :=
  let t : Int := (i : Int) - 1077
  geP10 (if t ≥ 0 then 2 ^ t.toNat else 1) (if t ≥ 0 then 1 else 2 ^ (-t).toNat)
    (((t + 1) * 30103) / 100000 - 2)

theorem estCheck_all : ∀ i < 2104, estCheck i = true := by decide +kernel

theorem est_le_pow2 (l : Int) (h1 : -1075 ≤ l) (h2 : l ≤ 1024) :
    (10 : ℚ) ^ ((l * 30103) / 100000 - 2) ≤ (2 : ℚ) ^ (l - 1) := by
  have := estCheck_all (l + 1076).toNat (by omega)
  unfold estCheck at this
  simp only [] at this
  have e : (((l + 1076).toNat : ℕ) : ℤ) - 1077 = l - 1 := by omega
  rw [e] at this
  obtain ⟨p1, p2⟩ := pow2_frac (l - 1)
  rw [geP10_iff _ _ _ p1, p2] at this
  rwa [show l - 1 + 1 = l by ring] at this

theorem foldl_geP10 (num den : Nat) (l : List Nat) (p0 : Int) (h : geP10 num den p0 = true) :
    geP10 num den (l.foldl (fun p _ => if geP10 num den (p + 1) then p + 1 else p) p0) = true := by
  induction l generalizing p0 with
  | nil => exact h
  | cons a t ih =>
    simp only [List.foldl_cons]
    apply ih
    split
    · assumption
    · exact h

theorem floorLog10_le (num den : Nat) (hnum : 0 < num) (hden : 0 < den)
    (hlo : (2 : ℚ) ^ (-1074 : ℤ) ≤ (num : ℚ) / den) (hhi : (num : ℚ) / den < (2 : ℚ) ^ (1024 : ℤ)) :
    (10 : ℚ) ^ (floorLog10 num den) ≤ (num : ℚ) / den := by
  have hden' : (0 : ℚ) < den := by exact_mod_cast hden
  have hnum' : (0 : ℚ) < num := by exact_mod_cast hnum
  obtain ⟨a, ha⟩ : ∃ a, a = Nat.log2 num := ⟨_, rfl⟩
  obtain ⟨b, hb⟩ : ∃ b, b = Nat.log2 den := ⟨_, rfl⟩
  have ha1 : ((2 : ℚ) ^ a) ≤ num := by
    have := Nat.log2_self_le (Nat.pos_iff_ne_zero.1 hnum); rw [← ha] at this; exact_mod_cast this
  have ha2 : (num : ℚ) < 2 * (2 : ℚ) ^ a := by
    have := @Nat.lt_log2_self num; rw [← ha, Nat.pow_succ] at this
    have h2 : (num : ℚ) < ((2 ^ a * 2 : ℕ) : ℚ) := by exact_mod_cast this
    push_cast at h2; linarith
  have hb1 : ((2 : ℚ) ^ b) ≤ den := by
    have := Nat.log2_self_le (Nat.pos_iff_ne_zero.1 hden); rw [← hb] at this; exact_mod_cast this
  have hb2 : (den : ℚ) < 2 * (2 : ℚ) ^ b := by
    have := @Nat.lt_log2_self den; rw [← hb, Nat.pow_succ] at this
    have h2 : (den : ℚ) < ((2 ^ b * 2 : ℕ) : ℚ) := by exact_mod_cast this
    push_cast at h2; linarith
  have hA : (0 : ℚ) < 2 ^ a := by positivity
  have hB : (0 : ℚ) < 2 ^ b := by positivity
  -- 2^(l-1) < num/den < 2^(l+1)
  have hgt : (2 : ℚ) ^ ((a : ℤ) - (b : ℤ) - 1) < (num : ℚ) / den := by
    have e : (2 : ℚ) ^ ((a : ℤ) - (b : ℤ) - 1) = 2 ^ a / (2 * 2 ^ b) := by
      rw [zpow_sub₀ (by norm_num), zpow_sub₀ (by norm_num), zpow_natCast, zpow_natCast, zpow_one]
      field_simp
    rw [e, div_lt_div_iff₀ (by positivity) hden']
    calc (2 : ℚ) ^ a * den < 2 ^ a * (2 * 2 ^ b) := mul_lt_mul_of_pos_left hb2 hA
      _ ≤ num * (2 * 2 ^ b) := mul_le_mul_of_nonneg_right ha1 (by positivity)
  have hlt : (num : ℚ) / den < (2 : ℚ) ^ ((a : ℤ) - (b : ℤ) + 1) := by
    have e : (2 : ℚ) ^ ((a : ℤ) - (b : ℤ) + 1) = 2 * 2 ^ a / 2 ^ b := by
      rw [zpow_add₀ (by norm_num), zpow_sub₀ (by norm_num), zpow_natCast, zpow_natCast, zpow_one]
      field_simp
    rw [e, div_lt_div_iff₀ hden' hB]
    calc (num : ℚ) * 2 ^ b < 2 * 2 ^ a * 2 ^ b := mul_lt_mul_of_pos_right ha2 hB
      _ ≤ 2 * 2 ^ a * den := mul_le_mul_of_nonneg_left hb1 (by positivity)
  have hl1 : -1075 ≤ (a : ℤ) - (b : ℤ) := by
    have := lt_of_le_of_lt hlo hlt
    have := (zpow_lt_zpow_iff_right₀ (a := (2 : ℚ)) (by norm_num)).1 this
    omega
  have hl2 : (a : ℤ) - (b : ℤ) ≤ 1024 := by
    have := lt_trans hgt hhi
    have := (zpow_lt_zpow_iff_right₀ (a := (2 : ℚ)) (by norm_num)).1 this
    omega
  have hbase : geP10 num den ((((a : ℤ) - (b : ℤ)) * 30103) / 100000 - 2) = true := by
    rw [geP10_iff _ _ _ hden]
    exact le_trans (est_le_pow2 _ hl1 hl2) hgt.le
  have := foldl_geP10 num den (List.range 8) _ hbase
  rw [geP10_iff _ _ _ hden] at this
  unfold floorLog10
  simp only [← ha, ← hb]
  exact this

set_option exponentiation.threshold 2100

/-! ### seventeen digits always suffice -/

theorem inside_key1 (D sD a c sN : Nat) (hD : 0 < D) (hsD : 0 < sD) :
    a * sD ≤ c * (sN * D) ↔ (a : ℚ) / D ≤ (c : ℚ) * ((sN : ℚ) / sD) := by
  have hD' : (0 : ℚ) < D := by exact_mod_cast hD
  have hsD' : (0 : ℚ) < sD := by exact_mod_cast hsD
  rw [← mul_div_assoc, div_le_div_iff₀ hD' hsD']
  constructor
  · intro h; have : ((a * sD : ℕ) : ℚ) ≤ ((c * (sN * D) : ℕ) : ℚ) := by exact_mod_cast h
    push_cast at this; linarith
  · intro h; have : ((a * sD : ℕ) : ℚ) ≤ ((c * (sN * D) : ℕ) : ℚ) := by push_cast; linarith
    exact_mod_cast this

theorem inside_key2 (D sD a c sN : Nat) (hD : 0 < D) (hsD : 0 < sD) :
    c * (sN * D) ≤ a * sD ↔ (c : ℚ) * ((sN : ℚ) / sD) ≤ (a : ℚ) / D := by
  have hD' : (0 : ℚ) < D := by exact_mod_cast hD
  have hsD' : (0 : ℚ) < sD := by exact_mod_cast hsD
  rw [← mul_div_assoc, div_le_div_iff₀ hsD' hD']
  constructor
  · intro h; have : ((c * (sN * D) : ℕ) : ℚ) ≤ ((a * sD : ℕ) : ℚ) := by exact_mod_cast h
    push_cast at this; linarith
  · intro h; have : ((c * (sN * D) : ℕ) : ℚ) ≤ ((a * sD : ℕ) : ℚ) := by push_cast; linarith
    exact_mod_cast this

theorem sdInside_of_strict (x : SDCtx) (n : Nat) (ok : CtxOK x n) (sN sD c : Nat) (hsD : 0 < sD)
    (h1 : valN n - (2 : ℚ) ^ (expo (n - 1)) / 2 < (c : ℚ) * ((sN : ℚ) / sD))
    (h2 : (c : ℚ) * ((sN : ℚ) / sD) < valN n + (2 : ℚ) ^ (expo n) / 2) :
    sdInside x sN sD c = true := by
  rw [← ok.lo] at h1
  rw [← ok.hi] at h2
  have a1 : x.ln * sD < c * (sN * x.D) := by
    apply Nat.lt_of_not_le
    intro hcon
    exact absurd ((inside_key2 _ _ _ _ _ ok.Dpos hsD).1 hcon) (not_le.2 h1)
  have a2 : c * (sN * x.D) < x.hn * sD := by
    apply Nat.lt_of_not_le
    intro hcon
    exact absurd ((inside_key1 _ _ _ _ _ ok.Dpos hsD).1 hcon) (not_le.2 h2)
  unfold sdInside
  simp only [Nat.mul_assoc c sN x.D]
  split
  · simp only [Bool.and_eq_true, decide_eq_true_eq]; exact ⟨a1.le, a2.le⟩
  · simp only [Bool.and_eq_true, decide_eq_true_eq]; exact ⟨a1, a2⟩

theorem sdCandAt_isSome (x : SDCtx) (k : Int) (sN sD : Nat)
    (h : (0 < (x.vn * sD) / (x.D * sN) ∧ sdInside x sN sD ((x.vn * sD) / (x.D * sN)) = true) ∨
      sdInside x sN sD ((x.vn * sD) / (x.D * sN) + 1) = true) :
    (sdCandAt x k sN sD).isSome = true := by
  unfold sdCandAt
  simp only []
  by_cases h1 : ((decide ((x.vn * sD) / (x.D * sN) > 0) && sdInside x sN sD ((x.vn * sD) / (x.D * sN))) &&
      sdInside x sN sD ((x.vn * sD) / (x.D * sN) + 1)) = true
  · rw [if_pos h1]; rfl
  · rw [if_neg h1]
    by_cases h2 : (decide ((x.vn * sD) / (x.D * sN) > 0) && sdInside x sN sD ((x.vn * sD) / (x.D * sN))) = true
    · rw [if_pos h2]; rfl
    · rw [if_neg h2]
      by_cases h3 : sdInside x sN sD ((x.vn * sD) / (x.D * sN) + 1) = true
      · rw [if_pos h3]; rfl
      · exfalso
        rcases h with ⟨a, b⟩ | c
        · apply h2; simp only [Bool.and_eq_true, decide_eq_true_eq]; exact ⟨a, b⟩
        · exact h3 c

theorem cand17 (x : SDCtx) (n : Nat) (hn0 : 0 < n) (ok : CtxOK x n)
    (hp : (10 : ℚ) ^ x.p ≤ valN n) : (sdCand x 17).isSome = true := by
  unfold sdCand
  simp only []
  obtain ⟨k, hk⟩ : ∃ k : ℤ, k = x.p - (((17 : ℕ) : ℤ) - 1) := ⟨_, rfl⟩
  rw [← hk]
  obtain ⟨s1, s2, s3⟩ := scale_spec k
  obtain ⟨sN, hsN⟩ : ∃ sN, sN = (if k ≥ 0 then pow10 k.toNat else 1) := ⟨_, rfl⟩
  obtain ⟨sD, hsD⟩ : ∃ sD, sD = (if k ≥ 0 then 1 else pow10 (-k).toNat) := ⟨_, rfl⟩
  simp only [← hsN, ← hsD] at s1 s2 s3 ⊢
  apply sdCandAt_isSome
  obtain ⟨clo, hclo⟩ : ∃ clo, clo = (x.vn * sD) / (x.D * sN) := ⟨_, rfl⟩
  rw [← hclo]
  have hD' : (0 : ℚ) < x.D := by exact_mod_cast ok.Dpos
  have hsN' : (0 : ℚ) < sN := by exact_mod_cast s1
  have hsD' : (0 : ℚ) < sD := by exact_mod_cast s2
  obtain ⟨w, hw⟩ : ∃ w : ℚ, w = (sN : ℚ) / sD := ⟨_, rfl⟩
  have hwpos : 0 < w := by rw [hw]; positivity
  obtain ⟨v, hv⟩ : ∃ v : ℚ, v = valN n := ⟨_, rfl⟩
  have hq : ((x.vn * sD : ℕ) : ℚ) / ((x.D * sN : ℕ) : ℚ) = v / w := by
    rw [hv, ← ok.v, hw]; push_cast; field_simp
  have hdpos : 0 < x.D * sN := Nat.mul_pos ok.Dpos s1
  have c1 : (clo : ℚ) * w ≤ v := by
    have := (natdiv_le_iff (n := x.vn * sD) (K := clo) hdpos).1 (by rw [hclo])
    rw [hq, le_div_iff₀ hwpos] at this; exact this
  have c2 : v < ((clo : ℚ) + 1) * w := by
    have := (natdiv_lt_iff (n := x.vn * sD) (K := clo + 1) hdpos).1 (by rw [hclo]; omega)
    rw [hq, div_lt_iff₀ hwpos] at this; push_cast at this; exact this
  -- w = 10^p / 10^16
  have hw16 : w * 10 ^ 16 ≤ v := by
    have e : (10 : ℚ) ^ x.p = (10 : ℚ) ^ k * 10 ^ 16 := by
      have : x.p = k + 16 := by rw [hk]; norm_num
      rw [this, zpow_add₀ (by norm_num)]; norm_num
    rw [hw, s3, ← e, hv]; exact hp
  have hclo0 : 0 < clo := by
    rcases Nat.eq_zero_or_pos clo with h0 | h0
    · rw [h0] at c2; push_cast at c2
      nlinarith
    · exact h0
  have hU : (0 : ℚ) < (2 : ℚ) ^ (expo n) := by positivity
  have hUl : (0 : ℚ) < (2 : ℚ) ^ (expo (n - 1)) := by positivity
  have hsig : (sig n : ℚ) < 2 ^ 53 := by exact_mod_cast sig_lt n
  have hvU : v < 2 ^ 53 * (2 : ℚ) ^ (expo n) := by
    rw [hv]; unfold valN; exact mul_lt_mul_of_pos_right hsig hU
  have e53 : (2 : ℚ) ^ 53 < 10 ^ 16 := by norm_num
  have hwU : w < (2 : ℚ) ^ (expo n) := by nlinarith
  by_cases hA : w < (2 : ℚ) ^ (expo n) / 2
  · right
    apply sdInside_of_strict x n ok sN sD (clo + 1) s2
    · rw [← hw, ← hv]; push_cast; linarith
    · rw [← hw, ← hv]; push_cast; nlinarith
  · have hA' := not_lt.1 hA
    -- not at a binade boundary
    have hsame : expo (n - 1) = expo n := by
      rw [expo_pred n hn0]
      split
      · rename_i hb
        exfalso
        simp only [Bool.and_eq_true, decide_eq_true_eq] at hb
        have hs : sig n = 2 ^ 52 := by unfold sig; rw [if_neg (by omega), hb.1, Nat.add_zero]
        have : v = 2 ^ 52 * (2 : ℚ) ^ (expo n) := by rw [hv]; unfold valN; rw [hs]; norm_num
        have e52 : (2 : ℚ) ^ 52 * 2 < 10 ^ 16 := by norm_num
        nlinarith
      · rfl
    by_cases hB : v - (clo : ℚ) * w < (2 : ℚ) ^ (expo n) / 2
    · left
      refine ⟨hclo0, ?_⟩
      apply sdInside_of_strict x n ok sN sD clo s2
      · rw [← hw, ← hv, hsame]; linarith
      · rw [← hw, ← hv]; linarith
    · right
      have hB' := not_lt.1 hB
      apply sdInside_of_strict x n ok sN sD (clo + 1) s2
      · rw [← hw, ← hv]; push_cast; linarith
      · rw [← hw, ← hv]; push_cast; nlinarith

set_option exponentiation.threshold 2100

/-! ### the round trip -/

theorem valN_one : valN 1 = (2 : ℚ) ^ (-1074 : ℤ) := by
  unfold valN
  have s1 : sig 1 = 1 := by decide
  have s2 : expo 1 = -1074 := by decide
  rw [s1, s2]; norm_num

theorem shortestDigits_found_all (b : UInt64) (hb0 : 0 < b) (hb : b < 0x7FF0000000000000) :
    shortestDigits_found b := by
  have hn0 : 0 < b.toNat := by
    have := UInt64.lt_iff_toNat_lt.1 hb0; simpa using this
  have hn : b.toNat < 2047 * 2 ^ 52 := by
    have := UInt64.lt_iff_toNat_lt.1 hb; rwa [inf_toNat] at this
  have ok := sdCtx_ok b hn0 hn
  have hp : (sdCtx b).p = floorLog10 (sdCtx b).vn (sdCtx b).D := rfl
  have hlo : (2 : ℚ) ^ (-1074 : ℤ) ≤ valN b.toNat := by
    rw [← valN_one]; exact valN_mono hn0
  have hhi : valN b.toNat < (2 : ℚ) ^ (1024 : ℤ) := by
    have h1 := valN_lt_succ b.toNat
    have h2 : valN (b.toNat + 1) ≤ valN (2047 * 2 ^ 52) := valN_mono (by omega)
    rw [valN_top] at h2
    have : (2 : ℚ) ^ (1024 : ℤ) = (2 : ℚ) ^ 1024 := by norm_num
    rw [this]; linarith
  have hle := floorLog10_le (sdCtx b).vn (sdCtx b).D ok.vpos ok.Dpos (by rw [ok.v]; exact hlo)
    (by rw [ok.v]; exact hhi)
  rw [← hp, ok.v] at hle
  have h17 := cand17 (sdCtx b) b.toNat hn0 ok hle
  unfold shortestDigits_found sdSearch
  rw [List.findSome?_isSome_iff]
  exact ⟨17, by simp, h17⟩

/-- the printed digits of every positive finite binary64 read back to the same bit pattern -/
theorem shortest_roundtrip (b : UInt64) (hb0 : 0 < b) (hb : b < 0x7FF0000000000000) :
    decimalToBits (shortestDigits b).1 (shortestDigits b).2 = b :=
  shortest_roundtrip_partial b hb0 hb (shortestDigits_found_all b hb0 hb)

/-- the printed digit string is non-zero and its value lies in the rounding interval of `b` -/
theorem shortestDigits_pos (b : UInt64) (hb0 : 0 < b) (hb : b < 0x7FF0000000000000) :
    0 < (shortestDigits b).1 := by
  have hfound := shortestDigits_found_all b hb0 hb
  unfold shortestDigits_found at hfound
  obtain ⟨⟨c, k⟩, hs⟩ := Option.isSome_iff_exists.1 hfound
  obtain ⟨j, _, hj⟩ := List.exists_of_findSome?_eq_some hs
  unfold sdCand at hj
  obtain ⟨_, hc, _⟩ := sdCandAt_some _ _ _ _ _ _ hj
  have hsd : shortestDigits b = stripZeros 20 c k := by
    unfold shortestDigits; rw [hs]
  rw [hsd]
  exact (stripZeros_spec 20 c k hc).1

end Calc.Proofs.ShortestRoundTrip
