/-
  Calc.Proofs.Lawful — what it means for a numeric kernel to be *exact*: the field-level
  contract the theorems about arithmetic (C02, C05, C06, C07, C08) are proved under.

  `Kernel S` (Model/Kernel.lean) only names the operations the Rust applies to `Complex64`.
  `LawfulKernel K` says that, over a field `K`, each of those operations is the mathematical one.
  It is a hypothesis, not an axiom: `Calc.Proofs.ComplexKernel` constructs an instance for `ℂ`
  (so the hypothesis is satisfiable), and the executable `Float` kernel is *not* claimed to be
  lawful — the rounding gap is carried by the correspondence streams.
-/
import Mathlib.Algebra.Field.Basic
import Mathlib.Algebra.CharZero.Defs
import Mathlib.Data.Rat.Cast.CharZero
import Mathlib.Algebra.Order.Field.Rat
import Calc.Model.Kernel

namespace Calc

/-- read an IEEE-754 binary64 bit pattern as the exact rational it denotes
    (finite patterns only; used for the shipped unit factors and constants) -/
def bitsToRat (b : Nat) : ℚ :=
  let sign : ℚ := if b / 2 ^ 63 % 2 = 1 then -1 else 1
  let e : Nat := b / 2 ^ 52 % 2 ^ 11
  let f : Nat := b % 2 ^ 52
  let m : Nat := 2 ^ 52 + f
  if e = 0 then sign * (f : ℚ) * (2 : ℚ) ^ (-1074 : ℤ)
  else sign * (m : ℚ) * (2 : ℚ) ^ ((e : ℤ) - 1075)

class LawfulKernel (K : Type) [Field K] [CharZero K] [Kernel K] : Prop where
  negOne_eq : (Kernel.negOne : K) = -1
  ofNat_eq : ∀ n : Nat, (Kernel.ofNat n : K) = (n : K)
  ofRatio_eq : ∀ a b : Nat, (Kernel.ofRatio a b : K) = (a : K) / (b : K)
  ofDecimal_eq : ∀ (m : Nat) (e : Int), (Kernel.ofDecimal m e : K) = (m : K) * (10 : K) ^ e
  /-- a shipped real constant is the rational its bits denote -/
  ofBits_real : ∀ b : Nat, (Kernel.ofBits b 0 : K) = ((bitsToRat b : ℚ) : K)
  eq_iff : ∀ a b : K, Kernel.eq a b = true ↔ a = b
  normIsZero_iff : ∀ z : K, Kernel.normIsZero z = true ↔ z = 0
  /-- `Complex64 * f64` by a real factor is multiplication -/
  mulRe_real : ∀ (z : K) (b : Nat), Kernel.mulRe z (Kernel.ofBits b 0) = z * Kernel.ofBits b 0

end Calc
