/-
  Calc.Proofs.ParsePos — the parser and `processText` ignore token positions (C17, text level).

  Route.  `Calc.Proofs.FrontParseTab` proves, by one induction over the 22 parser functions, that
  parsing commutes with erasing positions: `parse (ts.map Tok.erasePos) = (parse ts).erasePos`
  (statements AND parse errors).  Two token lists that are pointwise `Tok.EqModPos` have the same
  erasure; trees / statements / errors with the same erasure are `Expr.SimP` / `Stmt.SimP` /
  `PErr.SimPos` related (`Calc.Proofs.EvalPos`).  Hence `parse_simP`, and with `runStmts_simP`
  the `processText` level.  Core Lean only.
-/
import Calc.Proofs.EvalPos
import Calc.Proofs.FrontParseTab
import Calc.Model.Front
import Calc.Spec.Lexeme
namespace Calc

variable {S : Type}

/-! ## tokens -/

theorem Tok.erasePos_eq_iff {t t' : Tok S} : t.erasePos = t'.erasePos ↔ Tok.EqModPos t t' := by
  simp only [Tok.erasePos, Tok.mk.injEq, and_true, Tok.EqModPos]

theorem Tok.eqModPos_iff_noPos {t t' : Tok S} : Tok.EqModPos t t' ↔ t.noPos = t'.noPos := by
  simp only [Tok.EqModPos, Tok.noPos, Prod.mk.injEq]

theorem All₂.of_map_eq {α β : Type} {R : α → α → Prop} {g : α → β}
    (hg : ∀ a b, g a = g b → R a b) : ∀ {l l' : List α}, l.map g = l'.map g → All₂ R l l'
  | [], [], _ => .nil
  | [], _ :: _, h => by simp at h
  | _ :: _, [], h => by simp at h
  | a :: l, b :: l', h => by
    simp only [List.map_cons, List.cons.injEq] at h
    exact .cons (hg a b h.1) (All₂.of_map_eq hg h.2)

theorem All₂.map_eq {α β : Type} {R : α → α → Prop} {g : α → β}
    (hg : ∀ a b, R a b → g a = g b) {l l' : List α} (h : All₂ R l l') : l.map g = l'.map g := by
  induction h with
  | nil => rfl
  | cons hab _ ih => simp only [List.map_cons, hg _ _ hab, ih]

/-- pointwise `EqModPos` = same list of `noPos` (the form `C17_blank_insert` delivers) -/
theorem all₂_eqModPos_iff_noPos {ts ts' : List (Tok S)} :
    All₂ Tok.EqModPos ts ts' ↔ ts.map Tok.noPos = ts'.map Tok.noPos :=
  ⟨All₂.map_eq (fun _ _ h => Tok.eqModPos_iff_noPos.1 h),
   All₂.of_map_eq (fun _ _ h => Tok.eqModPos_iff_noPos.2 h)⟩

/-- pointwise `EqModPos` = same erasure -/
theorem all₂_eqModPos_iff_erasePos {ts ts' : List (Tok S)} :
    All₂ Tok.EqModPos ts ts' ↔ ts.map Tok.erasePos = ts'.map Tok.erasePos :=
  ⟨All₂.map_eq (fun _ _ h => Tok.erasePos_eq_iff.2 h),
   All₂.of_map_eq (fun _ _ h => Tok.erasePos_eq_iff.1 h)⟩

/-! ## trees, statements, errors with the same erasure are related -/

mutual
theorem Expr.simP_of_erasePos : ∀ (e e' : Expr S), e.erasePos = e'.erasePos → Expr.SimP e e'
  | .as_ e t u, x, h => by
    cases x with
    | as_ e' t' u' =>
      simp only [Expr.erasePos, Expr.as_.injEq] at h
      obtain ⟨h1, h2, rfl⟩ := h
      exact .as_ (Expr.simP_of_erasePos e e' h1) (Tok.erasePos_eq_iff.1 h2)
    | _ => simp [Expr.erasePos] at h
  | .binary l op r, x, h => by
    cases x with
    | binary l' op' r' =>
      simp only [Expr.erasePos, Expr.binary.injEq] at h
      exact .binary (Expr.simP_of_erasePos l l' h.1) (Tok.erasePos_eq_iff.1 h.2.1)
        (Expr.simP_of_erasePos r r' h.2.2)
    | _ => simp [Expr.erasePos] at h
  | .unary op a, x, h => by
    cases x with
    | unary op' a' =>
      simp only [Expr.erasePos, Expr.unary.injEq] at h
      exact .unary (Tok.erasePos_eq_iff.1 h.1) (Expr.simP_of_erasePos a a' h.2)
    | _ => simp [Expr.erasePos] at h
  | .grouping p k a, x, h => by
    cases x with
    | grouping p' k' a' =>
      simp only [Expr.erasePos, Expr.grouping.injEq] at h
      obtain ⟨h1, rfl, h3⟩ := h
      exact .grouping (Tok.erasePos_eq_iff.1 h1) (Expr.simP_of_erasePos a a' h3)
    | _ => simp [Expr.erasePos] at h
  | .number z, x, h => by
    cases x with
    | number z' =>
      simp only [Expr.erasePos, Expr.number.injEq] at h
      subst h
      exact .number
    | _ => simp [Expr.erasePos] at h
  | .measurement z u, x, h => by
    cases x with
    | measurement z' u' =>
      simp only [Expr.erasePos, Expr.measurement.injEq] at h
      obtain ⟨rfl, rfl⟩ := h
      exact .measurement
    | _ => simp [Expr.erasePos] at h
  | .matrix br rows, x, h => by
    cases x with
    | matrix br' rows' =>
      simp only [Expr.erasePos, Expr.matrix.injEq] at h
      exact .matrix (Tok.erasePos_eq_iff.1 h.1) (Expr.simPRows_of_erase rows rows' h.2)
    | _ => simp [Expr.erasePos] at h
  | .ident n, x, h => by
    cases x with
    | ident n' =>
      simp only [Expr.erasePos, Expr.ident.injEq] at h
      exact .ident (Tok.erasePos_eq_iff.1 h)
    | _ => simp [Expr.erasePos] at h
  | .call c p args, x, h => by
    cases x with
    | call c' p' args' =>
      simp only [Expr.erasePos, Expr.call.injEq] at h
      exact .call (Expr.simP_of_erasePos c c' h.1) (Tok.erasePos_eq_iff.1 h.2.1)
        (Expr.simPArgs_of_erase args args' h.2.2)
    | _ => simp [Expr.erasePos] at h
theorem Expr.simPArgs_of_erase : ∀ (es es' : List (Expr S)), eraseArgs es = eraseArgs es' →
    Expr.SimPArgs es es'
  | [], [], _ => .nil
  | [], _ :: _, h => by simp [eraseArgs] at h
  | _ :: _, [], h => by simp [eraseArgs] at h
  | e :: es, e' :: es', h => by
    simp only [eraseArgs, List.cons.injEq] at h
    exact .cons (Expr.simP_of_erasePos e e' h.1) (Expr.simPArgs_of_erase es es' h.2)
theorem Expr.simPRows_of_erase : ∀ (rs rs' : List (List (Expr S))), eraseRows rs = eraseRows rs' →
    Expr.SimPRows rs rs'
  | [], [], _ => .nil
  | [], _ :: _, h => by simp [eraseRows] at h
  | _ :: _, [], h => by simp [eraseRows] at h
  | r :: rs, r' :: rs', h => by
    simp only [eraseRows, List.cons.injEq] at h
    exact .cons (Expr.simPArgs_of_erase r r' h.1) (Expr.simPRows_of_erase rs rs' h.2)
end

theorem Stmt.simP_of_erasePos (s s' : Stmt S) (h : s.erasePos = s'.erasePos) : Stmt.SimP s s' := by
  cases s <;> cases s' <;> simp only [Stmt.erasePos, reduceCtorEq, Stmt.expr.injEq,
    Stmt.deleteVar.injEq, Stmt.deleteSig.injEq, Stmt.assign.injEq, Stmt.define.injEq] at h
  · exact .expr (Expr.simP_of_erasePos _ _ h)
  · exact .deleteVar (Tok.erasePos_eq_iff.1 h)
  · obtain ⟨h1, rfl⟩ := h
    exact .deleteSig _ (Tok.erasePos_eq_iff.1 h1)
  · exact .assign (Tok.erasePos_eq_iff.1 h.1) (Expr.simP_of_erasePos _ _ h.2)
  · obtain ⟨h1, rfl, h3⟩ := h
    exact .define _ (Tok.erasePos_eq_iff.1 h1) (Expr.simP_of_erasePos _ _ h3)
  · exact .clear

theorem PErr.simPos_of_erasePos (e e' : PErr) (h : e.erasePos = e'.erasePos) :
    PErr.SimPos e e' := by
  obtain ⟨k, p, i⟩ := e
  obtain ⟨k', p', i'⟩ := e'
  simp only [PErr.erasePos, PErr.mk.injEq] at h
  refine ⟨h.1, h.2.2, ?_⟩
  have := congrArg Option.isSome h.2.1
  simpa using this

/-! ## the parser -/

/-- related parse results: both accepted with pointwise related statements, or both rejected with
    the same error up to its position, or both out of fuel (never happens for `parse`) -/
inductive ParseRes.SimP : ParseRes S → ParseRes S → Prop
  | ok {ss ss' : List (Stmt S)} : All₂ Stmt.SimP ss ss' → ParseRes.SimP (.ok ss) (.ok ss')
  | err {e e' : PErr} : PErr.SimPos e e' → ParseRes.SimP (.err e) (.err e')
  | fuel : ParseRes.SimP .fuel .fuel

theorem ParseRes.simP_of_erasePos (r r' : ParseRes S) (h : r.erasePos = r'.erasePos) :
    ParseRes.SimP r r' := by
  cases r <;> cases r' <;> simp only [ParseRes.erasePos, reduceCtorEq, ParseRes.ok.injEq,
    ParseRes.err.injEq] at h
  · exact .ok (All₂.of_map_eq Stmt.simP_of_erasePos h)
  · exact .err (PErr.simPos_of_erasePos _ _ h)
  · exact .fuel

/-- **the parser ignores positions** -/
theorem parse_simP {ts ts' : List (Tok S)} (h : All₂ Tok.EqModPos ts ts') :
    ParseRes.SimP (parse ts) (parse ts') := by
  apply ParseRes.simP_of_erasePos
  rw [← parse_erasePos, ← parse_erasePos, all₂_eqModPos_iff_erasePos.1 h]

/-! ## `processText` -/

variable [Add S] [Sub S] [Mul S] [Div S] [Zero S] [One S] [Kernel S]

/-- the part of `processText` after the scan: parse everything, then run -/
def afterScan (fuel : Nat) (env : Env S) (toks : List (Tok S)) : StepOut S :=
  match parse toks with
  | .err e => ⟨env, [.parseErr e]⟩
  | .fuel => ⟨env, [.fuel]⟩
  | .ok stmts => runStmts fuel env stmts

theorem processText_of_scan {cfg : ScanCfg S} {text : Str} {toks : List (Tok S)}
    (h : scan cfg text = .ok toks) (fuel : Nat) (env : Env S) :
    processText cfg fuel env text = afterScan fuel env toks := by
  simp only [processText, h, afterScan]
  cases parse toks <;> rfl

theorem afterScan_simP {toks toks' : List (Tok S)} (ht : All₂ Tok.EqModPos toks toks')
    (fuel : Nat) {env env' : Env S} (he : Env.SimP env env') :
    StepOut.SimP (afterScan fuel env toks) (afterScan fuel env' toks') := by
  have hp := parse_simP ht
  unfold afterScan
  generalize parse toks = r at hp ⊢
  generalize parse toks' = r' at hp ⊢
  cases hp with
  | ok hs => exact runStmts_simP fuel hs he
  | err hp => exact ⟨he, .cons (.parseErr hp) .nil⟩
  | fuel => exact ⟨he, .cons .fuel .nil⟩

/-- **`processText` ignores positions**: two texts whose scans are pointwise `EqModPos`, run from
    related tables, print pointwise related lines and leave related tables -/
theorem processText_simP {cfg cfg' : ScanCfg S} {text text' : Str} {toks toks' : List (Tok S)}
    (h : scan cfg text = .ok toks) (h' : scan cfg' text' = .ok toks')
    (ht : All₂ Tok.EqModPos toks toks') (fuel : Nat) {env env' : Env S} (he : Env.SimP env env') :
    StepOut.SimP (processText cfg fuel env text) (processText cfg' fuel env' text') := by
  rw [processText_of_scan h, processText_of_scan h']
  exact afterScan_simP ht fuel he

/-- equal programs run equally (for the delimiter variants of C17Delims) -/
theorem processText_of_parse_eq {cfg cfg' : ScanCfg S} {text text' : Str}
    {toks toks' : List (Tok S)} (h : scan cfg text = .ok toks) (h' : scan cfg' text' = .ok toks')
    (hp : parse toks = parse toks') (fuel : Nat) (env : Env S) :
    processText cfg fuel env text = processText cfg' fuel env text' := by
  rw [processText_of_scan h, processText_of_scan h']
  simp only [afterScan, hp]

/-! ## what is printed -/

/-- the text of a value line -/
def Line.valueText : Line S → Option Str
  | .value v => some (showValue v)
  | _ => none

omit [Add S] [Sub S] [Mul S] [Div S] [Zero S] [One S] in
theorem Line.valueText_simP {l l' : Line S} (h : Line.SimP l l') :
    l.valueText = l'.valueText := by
  cases h <;> simp only [Line.valueText]
  rename_i hv
  rw [showValue_simP hv]

omit [Add S] [Sub S] [Mul S] [Div S] [Zero S] [One S] in
/-- related outputs print the same value texts, line by line (`none` = not a value line) -/
theorem valueTexts_simP {o o' : List (Line S)} (h : All₂ Line.SimP o o') :
    o.map Line.valueText = o'.map Line.valueText :=
  All₂.map_eq (fun _ _ h => Line.valueText_simP h) h

end Calc
