/-
  Calc.Proofs.ReparseSim — the grammar reads a phrase through the KINDS of its tokens only.

  `Expr.Sim e e'` : the two trees have the same shape, the same numbers, units and grouping kinds,
  and the tokens stored at corresponding nodes have the same kind (hence the same tag, the same
  identifier name); their lexeme texts and positions may differ.

  `Derives.of_kinds` : if `Derives l c e` and `c'` has the same kinds as `c`, token by token, then
  `Derives l c' e'` for some `e'` with `Expr.Sim e e'`.  This holds because every side condition
  of every rule of `Derives` is stated through `Tok.kind` or `Tok.tag`, and `Tok.tag t` is
  `Kind.tag t.kind`.  Matrix literals included.  Core Lean only.
-/
import Calc.Spec.Grammar
namespace Calc
variable {S : Type}

/-! ## similarity of trees -/

mutual
/-- same tree up to the lexeme texts and positions of the stored tokens -/
inductive Expr.Sim : Expr S → Expr S → Prop
  | as_ {e e' : Expr S} {t t' : Tok S} {u : Unit} : Expr.Sim e e' → t.kind = t'.kind →
      Expr.Sim (.as_ e t u) (.as_ e' t' u)
  | binary {l l' r r' : Expr S} {op op' : Tok S} : Expr.Sim l l' → op.kind = op'.kind →
      Expr.Sim r r' → Expr.Sim (.binary l op r) (.binary l' op' r')
  | unary {x x' : Expr S} {op op' : Tok S} : op.kind = op'.kind → Expr.Sim x x' →
      Expr.Sim (.unary op x) (.unary op' x')
  | grouping {e e' : Expr S} {o o' : Tok S} {k : GKind} : o.kind = o'.kind → Expr.Sim e e' →
      Expr.Sim (.grouping o k e) (.grouping o' k e')
  | number {z : S} : Expr.Sim (.number z) (.number z)
  | measurement {z : S} {u : Unit} : Expr.Sim (.measurement z u) (.measurement z u)
  | matrix {rows rows' : List (List (Expr S))} {s s' : Tok S} : s.kind = s'.kind →
      Expr.SimRows rows rows' → Expr.Sim (.matrix s rows) (.matrix s' rows')
  | ident {t t' : Tok S} : t.kind = t'.kind → Expr.Sim (.ident t) (.ident t')
  | call {fn fn' : Expr S} {lp lp' : Tok S} {args args' : List (Expr S)} : Expr.Sim fn fn' →
      lp.kind = lp'.kind → Expr.SimArgs args args' → Expr.Sim (.call fn lp args) (.call fn' lp' args')
/-- pointwise similar lists of trees (same length) -/
inductive Expr.SimArgs : List (Expr S) → List (Expr S) → Prop
  | nil : Expr.SimArgs [] []
  | cons {e e' : Expr S} {es es' : List (Expr S)} : Expr.Sim e e' → Expr.SimArgs es es' →
      Expr.SimArgs (e :: es) (e' :: es')
/-- pointwise similar lists of rows (same lengths) -/
inductive Expr.SimRows : List (List (Expr S)) → List (List (Expr S)) → Prop
  | nil : Expr.SimRows [] []
  | cons {r r' : List (Expr S)} {rs rs' : List (List (Expr S))} : Expr.SimArgs r r' →
      Expr.SimRows rs rs' → Expr.SimRows (r :: rs) (r' :: rs')
end

theorem Expr.SimArgs.length_eq : ∀ {es es' : List (Expr S)}, Expr.SimArgs es es' →
    es.length = es'.length
  | _, _, .nil => rfl
  | _, _, .cons _ h => by simp only [List.length_cons, h.length_eq]

/-- similar rows: every row on the right has the length of some row on the left -/
theorem Expr.SimRows.mem_right : ∀ {rs rs' : List (List (Expr S))}, Expr.SimRows rs rs' →
    ∀ b ∈ rs', ∃ a ∈ rs, a.length = b.length
  | _, _, .nil => fun b hb => by cases hb
  | _, _, .cons (r := r) h hs => fun b hb => by
    rcases List.mem_cons.mp hb with rfl | hb
    · exact ⟨r, List.mem_cons_self, h.length_eq⟩
    · obtain ⟨a, ha, hl⟩ := hs.mem_right b hb
      exact ⟨a, List.mem_cons_of_mem _ ha, hl⟩

theorem Expr.SimRows.uniform {rs rs' : List (List (Expr S))} (h : Expr.SimRows rs rs')
    (hu : Uniform rs) : Uniform rs' := by
  intro a ha b hb
  obtain ⟨a0, ha0, hla⟩ := h.mem_right a ha
  obtain ⟨b0, hb0, hlb⟩ := h.mem_right b hb
  rw [← hla, ← hlb]
  exact hu a0 ha0 b0 hb0

/-! ## similarity is an equivalence -/

mutual
theorem Expr.Sim.refl : ∀ e : Expr S, Expr.Sim e e
  | .as_ e _ _ => .as_ (Expr.Sim.refl e) rfl
  | .binary l _ r => .binary (Expr.Sim.refl l) rfl (Expr.Sim.refl r)
  | .unary _ x => .unary rfl (Expr.Sim.refl x)
  | .grouping _ _ e => .grouping rfl (Expr.Sim.refl e)
  | .number _ => .number
  | .measurement _ _ => .measurement
  | .matrix _ rows => .matrix rfl (Expr.SimRows.refl rows)
  | .ident _ => .ident rfl
  | .call fn _ args => .call (Expr.Sim.refl fn) rfl (Expr.SimArgs.refl args)
theorem Expr.SimArgs.refl : ∀ es : List (Expr S), Expr.SimArgs es es
  | [] => .nil
  | e :: es => .cons (Expr.Sim.refl e) (Expr.SimArgs.refl es)
theorem Expr.SimRows.refl : ∀ rs : List (List (Expr S)), Expr.SimRows rs rs
  | [] => .nil
  | r :: rs => .cons (Expr.SimArgs.refl r) (Expr.SimRows.refl rs)
end

mutual
theorem Expr.Sim.symm : ∀ {e e' : Expr S}, Expr.Sim e e' → Expr.Sim e' e
  | _, _, .as_ h ht => .as_ h.symm ht.symm
  | _, _, .binary h1 ht h2 => .binary h1.symm ht.symm h2.symm
  | _, _, .unary ht h => .unary ht.symm h.symm
  | _, _, .grouping ht h => .grouping ht.symm h.symm
  | _, _, .number => .number
  | _, _, .measurement => .measurement
  | _, _, .matrix ht h => .matrix ht.symm h.symm
  | _, _, .ident ht => .ident ht.symm
  | _, _, .call h ht ha => .call h.symm ht.symm ha.symm
theorem Expr.SimArgs.symm : ∀ {es es' : List (Expr S)}, Expr.SimArgs es es' → Expr.SimArgs es' es
  | _, _, .nil => .nil
  | _, _, .cons h hs => .cons h.symm hs.symm
theorem Expr.SimRows.symm : ∀ {rs rs' : List (List (Expr S))}, Expr.SimRows rs rs' →
    Expr.SimRows rs' rs
  | _, _, .nil => .nil
  | _, _, .cons h hs => .cons h.symm hs.symm
end

mutual
theorem Expr.Sim.trans : ∀ {a b c : Expr S}, Expr.Sim a b → Expr.Sim b c → Expr.Sim a c
  | _, _, _, .as_ h ht, .as_ h' ht' => .as_ (h.trans h') (ht.trans ht')
  | _, _, _, .binary h1 ht h2, .binary h1' ht' h2' =>
    .binary (h1.trans h1') (ht.trans ht') (h2.trans h2')
  | _, _, _, .unary ht h, .unary ht' h' => .unary (ht.trans ht') (h.trans h')
  | _, _, _, .grouping ht h, .grouping ht' h' => .grouping (ht.trans ht') (h.trans h')
  | _, _, _, .number, .number => .number
  | _, _, _, .measurement, .measurement => .measurement
  | _, _, _, .matrix ht h, .matrix ht' h' => .matrix (ht.trans ht') (h.trans h')
  | _, _, _, .ident ht, .ident ht' => .ident (ht.trans ht')
  | _, _, _, .call h ht ha, .call h' ht' ha' => .call (h.trans h') (ht.trans ht') (ha.trans ha')
theorem Expr.SimArgs.trans : ∀ {a b c : List (Expr S)}, Expr.SimArgs a b → Expr.SimArgs b c →
    Expr.SimArgs a c
  | _, _, _, .nil, .nil => .nil
  | _, _, _, .cons h hs, .cons h' hs' => .cons (h.trans h') (hs.trans hs')
theorem Expr.SimRows.trans : ∀ {a b c : List (List (Expr S))}, Expr.SimRows a b →
    Expr.SimRows b c → Expr.SimRows a c
  | _, _, _, .nil, .nil => .nil
  | _, _, _, .cons h hs, .cons h' hs' => .cons (h.trans h') (hs.trans hs')
end

/-! ## splitting a token list along the kinds of another -/

theorem Tok.tag_of_kind_eq {t t' : Tok S} (h : t'.kind = t.kind) : t'.tag = t.tag := by
  simp only [Tok.tag, h]

theorem map_kind_append_inv {c' a b : List (Tok S)}
    (h : c'.map (·.kind) = (a ++ b).map (·.kind)) :
    ∃ a' b', c' = a' ++ b' ∧ a'.map (·.kind) = a.map (·.kind) ∧ b'.map (·.kind) = b.map (·.kind) := by
  rw [List.map_append] at h
  exact List.map_eq_append_iff.mp h

theorem map_kind_cons_inv {c' : List (Tok S)} {t : Tok S} {b : List (Tok S)}
    (h : c'.map (·.kind) = (t :: b).map (·.kind)) :
    ∃ t' b', c' = t' :: b' ∧ t'.kind = t.kind ∧ b'.map (·.kind) = b.map (·.kind) := by
  rw [List.map_cons] at h
  exact List.map_eq_cons_iff.mp h

theorem map_kind_nil_inv {c' : List (Tok S)}
    (h : c'.map (·.kind) = ([] : List (Tok S)).map (·.kind)) : c' = [] := by
  simpa using h

/-! ## the grammar reads kinds -/

mutual
/-- a phrase with the same kinds, token by token, is a phrase of the same level, read as a
    similar tree -/
theorem Derives.of_kinds' : ∀ {l} {c : List (Tok S)} {e}, Derives l c e → ∀ c' : List (Tok S),
    c'.map (·.kind) = c.map (·.kind) → ∃ e', Derives l c' e' ∧ Expr.Sim e e'
  | _, _, _, .incl hl h => fun c' hc =>
    let ⟨e', d, s⟩ := h.of_kinds' c' hc
    ⟨e', .incl hl d, s⟩
  | _, _, _, .as_ (un := un) h ha hu => fun c' hc => by
    obtain ⟨c0, r1, rfl, h0, hr1⟩ := map_kind_append_inv hc
    obtain ⟨a', r2, rfl, ha', hr2⟩ := map_kind_cons_inv hr1
    obtain ⟨u', r3, rfl, hu', hr3⟩ := map_kind_cons_inv hr2
    cases map_kind_nil_inv hr3
    obtain ⟨e', d, s⟩ := h.of_kinds' c0 h0
    exact ⟨.as_ e' a' un, .as_ d ((Tok.tag_of_kind_eq ha').trans ha) (hu'.trans hu),
      .as_ s ha'.symm⟩
  | _, _, _, .binl hl hop h1 h2 => fun c' hc => by
    obtain ⟨c1, r1, rfl, hc1, hr1⟩ := map_kind_append_inv hc
    obtain ⟨op', c2, rfl, hop', hc2⟩ := map_kind_cons_inv hr1
    obtain ⟨a', d1, s1⟩ := h1.of_kinds' c1 hc1
    obtain ⟨b', d2, s2⟩ := h2.of_kinds' c2 hc2
    exact ⟨.binary a' op' b', .binl hl (by rw [Tok.tag_of_kind_eq hop']; exact hop) d1 d2,
      .binary s1 hop'.symm s2⟩
  | _, _, _, .pow hop h1 h2 => fun c' hc => by
    obtain ⟨c1, r1, rfl, hc1, hr1⟩ := map_kind_append_inv hc
    obtain ⟨op', c2, rfl, hop', hc2⟩ := map_kind_cons_inv hr1
    obtain ⟨a', d1, s1⟩ := h1.of_kinds' c1 hc1
    obtain ⟨b', d2, s2⟩ := h2.of_kinds' c2 hc2
    exact ⟨.binary a' op' b', .pow ((Tok.tag_of_kind_eq hop').trans hop) d1 d2,
      .binary s1 hop'.symm s2⟩
  | _, _, _, .pre hop h => fun c' hc => by
    obtain ⟨op', c1, rfl, hop', hc1⟩ := map_kind_cons_inv hc
    obtain ⟨x', d, s⟩ := h.of_kinds' c1 hc1
    exact ⟨.unary op' x', .pre (by rw [Tok.tag_of_kind_eq hop']; exact hop) d,
      .unary hop'.symm s⟩
  | _, _, _, .post hop h => fun c' hc => by
    obtain ⟨c1, r1, rfl, hc1, hr1⟩ := map_kind_append_inv hc
    obtain ⟨op', r2, rfl, hop', hr2⟩ := map_kind_cons_inv hr1
    cases map_kind_nil_inv hr2
    obtain ⟨x', d, s⟩ := h.of_kinds' c1 hc1
    exact ⟨.unary op' x', .post ((Tok.tag_of_kind_eq hop').trans hop) d, .unary hop'.symm s⟩
  | _, _, _, .call0 hl hr h => fun c' hc => by
    obtain ⟨c1, r1, rfl, hc1, hr1⟩ := map_kind_append_inv hc
    obtain ⟨lp', r2, rfl, hl', hr2⟩ := map_kind_cons_inv hr1
    obtain ⟨rp', r3, rfl, hr', hr3⟩ := map_kind_cons_inv hr2
    cases map_kind_nil_inv hr3
    obtain ⟨fn', d, s⟩ := h.of_kinds' c1 hc1
    exact ⟨.call fn' lp' [], .call0 ((Tok.tag_of_kind_eq hl').trans hl)
      ((Tok.tag_of_kind_eq hr').trans hr) d, .call s hl'.symm .nil⟩
  | _, _, _, .call hl hr h ha => fun c' hc => by
    obtain ⟨c0, r0, rfl, hc0, hr0⟩ := map_kind_append_inv hc
    obtain ⟨c1, r1, rfl, hc1, hr1⟩ := map_kind_append_inv hc0
    obtain ⟨lp', ca', rfl, hl', hca⟩ := map_kind_cons_inv hr1
    obtain ⟨rp', r3, rfl, hr', hr3⟩ := map_kind_cons_inv hr0
    cases map_kind_nil_inv hr3
    obtain ⟨fn', d, s⟩ := h.of_kinds' c1 hc1
    obtain ⟨args', da, sa⟩ := ha.of_kinds' ca' hca
    exact ⟨.call fn' lp' args', .call ((Tok.tag_of_kind_eq hl').trans hl)
      ((Tok.tag_of_kind_eq hr').trans hr) d da, .call s hl'.symm sa⟩
  | _, _, _, .number (z := z) hz => fun c' hc => by
    obtain ⟨t', r1, rfl, ht', hr1⟩ := map_kind_cons_inv hc
    cases map_kind_nil_inv hr1
    exact ⟨.number z, .number (ht'.trans hz), .number⟩
  | _, _, _, .measurement (z := z) (un := un) hz hu => fun c' hc => by
    obtain ⟨t', r1, rfl, ht', hr1⟩ := map_kind_cons_inv hc
    obtain ⟨u', r2, rfl, hu', hr2⟩ := map_kind_cons_inv hr1
    cases map_kind_nil_inv hr2
    exact ⟨.measurement z un, .measurement (ht'.trans hz) (hu'.trans hu), .measurement⟩
  | _, _, _, .ident hn => fun c' hc => by
    obtain ⟨t', r1, rfl, ht', hr1⟩ := map_kind_cons_inv hc
    cases map_kind_nil_inv hr1
    exact ⟨.ident t', .ident (ht'.trans hn), .ident ht'.symm⟩
  | _, _, _, .group (k := k) ho hs h => fun c' hc => by
    obtain ⟨c0, r0, rfl, hc0, hr0⟩ := map_kind_append_inv hc
    obtain ⟨o', c1, rfl, ho', hc1⟩ := map_kind_cons_inv hc0
    obtain ⟨s', r1, rfl, hs', hr1⟩ := map_kind_cons_inv hr0
    cases map_kind_nil_inv hr1
    obtain ⟨e', d, s⟩ := h.of_kinds' c1 hc1
    exact ⟨.grouping o' k e', .group ((Tok.tag_of_kind_eq ho').trans ho)
      ((Tok.tag_of_kind_eq hs').trans hs) d, .grouping ho'.symm s⟩
  | _, _, _, .matrix ho hs hr hu => fun c' hc => by
    obtain ⟨c0, r0, rfl, hc0, hr0⟩ := map_kind_append_inv hc
    obtain ⟨o', c1, rfl, ho', hc1⟩ := map_kind_cons_inv hc0
    obtain ⟨s', r1, rfl, hs', hr1⟩ := map_kind_cons_inv hr0
    cases map_kind_nil_inv hr1
    obtain ⟨rows', d, s⟩ := hr.of_kinds' c1 hc1
    exact ⟨.matrix s' rows', .matrix ((Tok.tag_of_kind_eq ho').trans ho)
      ((Tok.tag_of_kind_eq hs').trans hs) d (s.uniform hu), .matrix hs'.symm s⟩
theorem DerivesArgs.of_kinds' : ∀ {c : List (Tok S)} {es}, DerivesArgs c es →
    ∀ c' : List (Tok S), c'.map (·.kind) = c.map (·.kind) →
      ∃ es', DerivesArgs c' es' ∧ Expr.SimArgs es es'
  | _, _, .one h => fun c' hc =>
    let ⟨e', d, s⟩ := h.of_kinds' c' hc
    ⟨[e'], .one d, .cons s .nil⟩
  | _, _, .cons h hcm hs => fun c' hc => by
    obtain ⟨c1, r1, rfl, hc1, hr1⟩ := map_kind_append_inv hc
    obtain ⟨cm', c2, rfl, hcm', hc2⟩ := map_kind_cons_inv hr1
    obtain ⟨e', d, s⟩ := h.of_kinds' c1 hc1
    obtain ⟨es', ds, ss⟩ := hs.of_kinds' c2 hc2
    exact ⟨e' :: es', .cons d ((Tok.tag_of_kind_eq hcm').trans hcm) ds, .cons s ss⟩
theorem DerivesRows.of_kinds' : ∀ {c : List (Tok S)} {rows}, DerivesRows c rows →
    ∀ c' : List (Tok S), c'.map (·.kind) = c.map (·.kind) →
      ∃ rows', DerivesRows c' rows' ∧ Expr.SimRows rows rows'
  | _, _, .one h => fun c' hc =>
    let ⟨r', d, s⟩ := h.of_kinds' c' hc
    ⟨[r'], .one d, .cons s .nil⟩
  | _, _, .cons h hsm hs => fun c' hc => by
    obtain ⟨c1, r1, rfl, hc1, hr1⟩ := map_kind_append_inv hc
    obtain ⟨sm', c2, rfl, hsm', hc2⟩ := map_kind_cons_inv hr1
    obtain ⟨r', d, s⟩ := h.of_kinds' c1 hc1
    obtain ⟨rs', ds, ss⟩ := hs.of_kinds' c2 hc2
    exact ⟨r' :: rs', .cons d ((Tok.tag_of_kind_eq hsm').trans hsm) ds, .cons s ss⟩
end

/-- **the grammar reads kinds**: if `c` is a phrase of level `l` read as `e`, and `c'` has the
    same kinds as `c` token by token, then `c'` is a phrase of level `l`, read as a tree similar
    to `e` -/
theorem Derives.of_kinds {l : Level} {c c' : List (Tok S)} {e : Expr S} (h : Derives l c e)
    (hc : c.map (·.kind) = c'.map (·.kind)) : ∃ e', Derives l c' e' ∧ Expr.Sim e e' :=
  h.of_kinds' c' hc.symm

end Calc
