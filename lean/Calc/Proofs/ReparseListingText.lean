/-
  Calc.Proofs.ReparseListingText — the whole listing text, every entry followed by a line break,
  scans and is parsed as the list of the definitions, in listing order (C18).
-/
import Calc.Proofs.ReparseListing
namespace Calc

variable {S : Type} [Kernel S]

/-- the entry followed by a line break scans to kinds `ks` and a newline, and any well-formed
    tokens of kinds `ks` are a definition phrase: name `n`, the same signature, a similar body -/
def EntryReads (cfg : ScanCfg S) (n : Str) (e : Sig S × Expr S) (ks : List (Kind S)) : Prop :=
  ScansAs cfg (showSigEntry n e ++ ['\n']) (ks ++ [Kind.newline]) anyNext ∧
  ∀ toks : List (Tok S), (∀ t ∈ toks, Tok.WF cfg t) → toks.map (·.kind) = ks →
    ∃ name' body', name'.lexeme = n ∧ Expr.SimLex e.2 body' ∧
      DerivesStmt toks (.define name' e.1 body')

/-- what the statements read back are: definitions named `n` of the entries, in order -/
inductive ReadBack (n : Str) : List (Sig S × Expr S) → List (Stmt S) → Prop
  | nil : ReadBack n [] []
  | cons {e es ss} {name' : Tok S} {body' : Expr S} : name'.lexeme = n → Expr.SimLex e.2 body' →
      ReadBack n es ss → ReadBack n (e :: es) (Stmt.define name' e.1 body' :: ss)

theorem entryReads_of_define {cfg : ScanCfg S} (hop : ∀ c ∈ opChars, cfg.isAlnum c = false)
    (hblank : cfg.isAlnum ' ' = false) (hnl : cfg.isAlnum '\n' = false) (ht : TableOK cfg)
    {f₀ : Nat} {ts₀ r₀ : List (Tok S)} (hwf : ∀ t ∈ ts₀, Tok.WF cfg t) {name : Tok S}
    {sig : Sig S} {body : Expr S} (hp : pStatement f₀ ts₀ = .ok (.define name sig body) r₀)
    (hm : body.NoMatrix) (hlit : ∀ t ∈ ts₀, ∀ z, t.kind = .number z → LitOK z) :
    ∃ ks, EntryReads cfg name.lexeme (sig, body) ks := by
  obtain ⟨lp, args, c₁, c₂, hc, hps, hb, hm1, hm2, hmh, H⟩ :=
    entry_tokens_reparse ht.kinds hwf hp hm
  have hokh := hc.treeOK ht.kinds
    (fun t h => (hwf t (hm1 t h)).printOK ht (hlit t (hm1 t h))) hmh
  have hokb := hb.treeOK ht.kinds
    (fun t h => (hwf t (hm2 t h)).printOK ht (hlit t (hm2 t h))) hm
  have hs := scansAs_entry cfg hop hblank _ body hokh hokb
  have hstop : ∀ r : Str, anyNext r.head? → stop cfg (['\n'] ++ r).head? := by
    intro r _
    refine ⟨fun d h => ?_, fun d h => ?_⟩
    · simp at h; subst h; decide
    · simp at h; subst h; simp [isIdentCont, hnl]
  refine ⟨(Expr.call (.ident name) lp args).kinds ++ ([Kind.equal] ++ body.kinds), ?_, ?_⟩
  · rw [showSigEntry_eq name lp args sig.params body hps]
    exact ScansAs.append hs (scansAs_newline cfg) hstop
  · intro toks hwf' hk
    obtain ⟨name', body', hn, -, hsl, hP⟩ := H toks hwf' hk
    refine ⟨name', body', hn, hsl, ?_⟩
    let d : Tok S := ⟨.newline, ['\\', 'n'], 1, 1⟩
    have hd : d.isDelim := Or.inl (by simp [d, Tok.tag, Kind.tag])
    have h1 := hP _ d [] hd (Nat.le_refl _)
    obtain ⟨c, d', hcd, -, ds⟩ := pStatement_sound h1
    have : toks = c := List.append_inj_left' hcd (by simp)
    rw [this]
    exact ds

/-- all entries one after the other, each followed by a line break -/
theorem entries_read {cfg : ScanCfg S} (n : Str) (es : List (Sig S × Expr S))
    (h : ∀ e ∈ es, ∃ ks, EntryReads cfg n e ks) :
    ∃ K, ScansAs cfg (es.map (fun e => showSigEntry n e ++ ['\n'])).flatten K anyNext ∧
      ∀ toks : List (Tok S), (∀ t ∈ toks, Tok.WF cfg t) → toks.map (·.kind) = K →
        ∃ ss, DerivesProgram toks ss ∧ ReadBack n es ss := by
  induction es with
  | nil =>
    refine ⟨[], ScansAs.nil cfg anyNext, fun toks _ hk => ?_⟩
    have : toks = [] := by simpa using hk
    subst this
    exact ⟨[], .nil, .nil⟩
  | cons e es ih =>
    obtain ⟨ks, hs, hr⟩ := h e List.mem_cons_self
    obtain ⟨K, hS, hR⟩ := ih (fun e' he' => h e' (List.mem_cons_of_mem _ he'))
    refine ⟨(ks ++ [Kind.newline]) ++ K, ?_, ?_⟩
    · simp only [List.map_cons, List.flatten_cons]
      exact ScansAs.append hs hS (fun _ _ => trivial)
    · intro toks hwf hk
      obtain ⟨a, b, rfl, ha, hb⟩ := List.map_eq_append_iff.mp hk
      obtain ⟨a', c, rfl, ha', hc⟩ := List.map_eq_append_iff.mp ha
      obtain ⟨nl, c', rfl, hnl, hc'⟩ := List.map_eq_cons_iff.mp hc
      have : c' = [] := by simpa using hc'
      subst this
      obtain ⟨name', body', hn, hsl, ds⟩ := hr a' (fun t ht => hwf t (by simp [ht])) ha'
      obtain ⟨ss, hp, hrb⟩ := hR b (fun t ht => hwf t (by simp [ht])) hb
      have hd : nl.isDelim := Or.inl (by simp [Tok.tag, hnl, Kind.tag])
      refine ⟨_ :: ss, ?_, ReadBack.cons hn hsl hrb⟩
      have := DerivesProgram.stmt ds hd hp
      simpa using this

/-- a text that scans piecewise, on its own -/
theorem ScansAs.scan_ok_any {cfg : ScanCfg S} {a : Str} {ks : List (Kind S)}
    (h : ScansAs cfg a ks anyNext) : ∃ toks, scan cfg a = .ok toks ∧ toks.map (·.kind) = ks := by
  obtain ⟨ts, p', f', h1, h2, -⟩ := h [] trivial (a.length + 1) ⟨1, 1⟩ (by simp)
  refine ⟨ts, ?_, h2⟩
  unfold scan
  rw [List.append_nil] at h1
  rw [h1]
  have : scanLoop cfg f' [] p' = .ok [] := by cases f' <;> rfl
  rw [this, consAll_ok]

/-- the listing text with a final line break is the entries, each followed by a line break -/
theorem joinWith_newline_flatten (xs : List Str) (h : xs ≠ []) :
    joinWith ['\n'] xs ++ ['\n'] = (xs.map (fun x => x ++ ['\n'])).flatten := by
  induction xs with
  | nil => exact absurd rfl h
  | cons x xs ih =>
    cases xs with
    | nil => simp [joinWith]
    | cons y ys =>
      have := ih (by simp)
      simp only [joinWith, List.map_cons, List.flatten_cons, List.append_assoc] at this ⊢
      rw [this]

end Calc
