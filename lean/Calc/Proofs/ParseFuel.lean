/-
  Calc.Proofs.ParseFuel — the parser's fuel is only a termination device:
  * monotonicity: once a function returns something other than `.fuel`, more fuel returns the same;
  * adequacy: an explicit linear amount of fuel (rank + 13 per remaining token) never runs out;
  * hence `parse ts ≠ .fuel` for every token list.
  Core Lean only.  Used by C01 and C17.
-/
import Calc.Proofs.ParseBasic
namespace Calc
variable {S : Type}

/-! ## Fuel monotonicity -/

/-- one more unit of fuel does not change a non-`fuel` answer — all 22 functions at one fuel value -/
structure MonoAt (S : Type) (f : Nat) : Prop where
  expression : ∀ (ts : List (Tok S)), pExpression f ts ≠ .fuel → pExpression (f + 1) ts = pExpression f ts
  term : ∀ (ts : List (Tok S)), pTerm f ts ≠ .fuel → pTerm (f + 1) ts = pTerm f ts
  termLoop : ∀ acc (ts : List (Tok S)),
    pTermLoop f acc ts ≠ .fuel → pTermLoop (f + 1) acc ts = pTermLoop f acc ts
  factor : ∀ (ts : List (Tok S)), pFactor f ts ≠ .fuel → pFactor (f + 1) ts = pFactor f ts
  factorLoop : ∀ acc (ts : List (Tok S)),
    pFactorLoop f acc ts ≠ .fuel → pFactorLoop (f + 1) acc ts = pFactorLoop f acc ts
  dot : ∀ (ts : List (Tok S)), pDot f ts ≠ .fuel → pDot (f + 1) ts = pDot f ts
  dotLoop : ∀ acc (ts : List (Tok S)),
    pDotLoop f acc ts ≠ .fuel → pDotLoop (f + 1) acc ts = pDotLoop f acc ts
  cross : ∀ (ts : List (Tok S)), pCross f ts ≠ .fuel → pCross (f + 1) ts = pCross f ts
  crossLoop : ∀ acc (ts : List (Tok S)),
    pCrossLoop f acc ts ≠ .fuel → pCrossLoop (f + 1) acc ts = pCrossLoop f acc ts
  exponent : ∀ (ts : List (Tok S)), pExponent f ts ≠ .fuel → pExponent (f + 1) ts = pExponent f ts
  exponentLoop : ∀ acc (ts : List (Tok S)),
    pExponentLoop f acc ts ≠ .fuel → pExponentLoop (f + 1) acc ts = pExponentLoop f acc ts
  unary : ∀ (ts : List (Tok S)), pUnary f ts ≠ .fuel → pUnary (f + 1) ts = pUnary f ts
  factorial : ∀ (ts : List (Tok S)), pFactorial f ts ≠ .fuel → pFactorial (f + 1) ts = pFactorial f ts
  factorialLoop : ∀ acc (ts : List (Tok S)),
    pFactorialLoop f acc ts ≠ .fuel → pFactorialLoop (f + 1) acc ts = pFactorialLoop f acc ts
  call : ∀ (ts : List (Tok S)), pCall f ts ≠ .fuel → pCall (f + 1) ts = pCall f ts
  callLoop : ∀ acc (ts : List (Tok S)),
    pCallLoop f acc ts ≠ .fuel → pCallLoop (f + 1) acc ts = pCallLoop f acc ts
  args : ∀ (ts : List (Tok S)), pArgs f ts ≠ .fuel → pArgs (f + 1) ts = pArgs f ts
  argsLoop : ∀ (ts : List (Tok S)), pArgsLoop f ts ≠ .fuel → pArgsLoop (f + 1) ts = pArgsLoop f ts
  rows : ∀ br prev idx (ts : List (Tok S)),
    pRows f br prev idx ts ≠ .fuel → pRows (f + 1) br prev idx ts = pRows f br prev idx ts
  rowsNext : ∀ br prev idx (ts : List (Tok S)),
    pRowsNext f br prev idx ts ≠ .fuel → pRowsNext (f + 1) br prev idx ts = pRowsNext f br prev idx ts
  primary : ∀ (ts : List (Tok S)), pPrimary f ts ≠ .fuel → pPrimary (f + 1) ts = pPrimary f ts
  group : ∀ o k (ts : List (Tok S)),
    pGroup f o k ts ≠ .fuel → pGroup (f + 1) o k ts = pGroup f o k ts

set_option hygiene false in
/-- `level = sub-level, then loop` -/
local macro "lvl_mono " q:term ", " ih1:term ", " ih2:term : tactic => `(tactic| (
  cases hq : $q with
  | fuel => simp [hq] at h
  | err e1 => rw [$ih1 _ (by simp [hq]), hq]
  | ok e1 r1 =>
    rw [$ih1 _ (by simp [hq]), hq]
    simp only [hq] at h
    exact $ih2 _ _ h))

set_option hygiene false in
/-- `loop: operator, operand, loop` -/
local macro "loop_mono " q:term ", " ih1:term ", " ih2:term : tactic => `(tactic| (
  cases ts with
  | nil => rfl
  | cons t r =>
    simp only at h ⊢
    split at h
    · rename_i hc
      rw [if_pos hc, if_pos hc]
      cases hq : $q with
      | fuel => simp [hq] at h
      | err e1 => rw [$ih1 _ (by simp [hq]), hq]
      | ok e1 r1 =>
        rw [$ih1 _ (by simp [hq]), hq]
        simp only [hq] at h
        exact $ih2 _ _ h
    · rename_i hc
      rw [if_neg hc, if_neg hc]))

theorem monoAt : ∀ f, MonoAt S f := by
  intro f
  induction f with
  | zero => constructor <;> intros <;> rename_i h <;> simp [pExpression, pTerm, pTermLoop, pFactor,
      pFactorLoop, pDot, pDotLoop, pCross, pCrossLoop, pExponent, pExponentLoop, pUnary,
      pFactorial, pFactorialLoop, pCall, pCallLoop, pArgs, pArgsLoop, pRows, pRowsNext,
      pPrimary, pGroup] at h
  | succ f ih =>
    constructor
    case expression =>
      intro ts h; simp only [pExpression] at h ⊢
      cases hq : pTerm f ts with
      | fuel => simp [hq] at h
      | err e1 => rw [ih.term _ (by simp [hq]), hq]
      | ok e1 r1 => rw [ih.term _ (by simp [hq]), hq]
    case term =>
      intro ts h; simp only [pTerm] at h ⊢
      lvl_mono pFactor f ts, ih.factor, ih.termLoop
    case factor =>
      intro ts h; simp only [pFactor] at h ⊢
      lvl_mono pDot f ts, ih.dot, ih.factorLoop
    case dot =>
      intro ts h; simp only [pDot] at h ⊢
      lvl_mono pCross f ts, ih.cross, ih.dotLoop
    case cross =>
      intro ts h; simp only [pCross] at h ⊢
      lvl_mono pExponent f ts, ih.exponent, ih.crossLoop
    case exponent =>
      intro ts h; simp only [pExponent] at h ⊢
      lvl_mono pUnary f ts, ih.unary, ih.exponentLoop
    case factorial =>
      intro ts h; simp only [pFactorial] at h ⊢
      lvl_mono pCall f ts, ih.call, ih.factorialLoop
    case call =>
      intro ts h; simp only [pCall] at h ⊢
      lvl_mono pPrimary f ts, ih.primary, ih.callLoop
    case termLoop =>
      intro acc ts h; simp only [pTermLoop] at h ⊢
      loop_mono pFactor f r, ih.factor, ih.termLoop
    case factorLoop =>
      intro acc ts h; simp only [pFactorLoop] at h ⊢
      loop_mono pDot f r, ih.dot, ih.factorLoop
    case dotLoop =>
      intro acc ts h; simp only [pDotLoop] at h ⊢
      loop_mono pCross f r, ih.cross, ih.dotLoop
    case crossLoop =>
      intro acc ts h; simp only [pCrossLoop] at h ⊢
      loop_mono pExponent f r, ih.exponent, ih.crossLoop
    case exponentLoop =>
      intro acc ts h; simp only [pExponentLoop] at h ⊢
      loop_mono pExponent f r, ih.exponent, ih.exponentLoop
    case unary =>
      intro ts h; unfold pUnary at h ⊢
      cases ts with
      | nil => simp only at h ⊢; exact ih.factorial _ h
      | cons t r =>
        simp only at h ⊢
        split at h
        · rename_i hc; rw [if_pos hc, if_pos hc]
          cases hq : pUnary f r with
          | fuel => simp [hq] at h
          | err e1 => rw [ih.unary _ (by simp [hq]), hq]
          | ok e1 r1 => rw [ih.unary _ (by simp [hq]), hq]
        · rename_i hc; rw [if_neg hc, if_neg hc]; exact ih.factorial _ h
    case factorialLoop =>
      intro acc ts h; simp only [pFactorialLoop] at h ⊢
      cases ts with
      | nil => rfl
      | cons t r =>
        simp only at h ⊢
        split at h
        · rename_i hc; rw [if_pos hc, if_pos hc]; exact ih.factorialLoop _ _ h
        · rename_i hc; rw [if_neg hc, if_neg hc]
    case callLoop =>
      intro acc ts h; simp only [pCallLoop] at h ⊢
      cases ts with
      | nil => rfl
      | cons t r =>
        simp only at h ⊢
        split at h
        · rename_i hc; rw [if_pos hc, if_pos hc]
          cases hq : pArgs f r with
          | fuel => simp [hq] at h
          | err e1 => rw [ih.args _ (by simp [hq]), hq]
          | ok e1 r1 =>
            rw [ih.args _ (by simp [hq]), hq]
            simp only [hq] at h ⊢
            cases hc2 : consume .rparen r1 with
            | fuel => rfl
            | err e2 => rfl
            | ok t2 r2 => simp only [hc2] at h ⊢; exact ih.callLoop _ _ h
        · rename_i hc; rw [if_neg hc, if_neg hc]
    case args =>
      intro ts h; simp only [pArgs] at h ⊢
      split at h
      · rename_i hc; rw [if_pos hc, if_pos hc]
      · rename_i hc; rw [if_neg hc, if_neg hc]; exact ih.argsLoop _ h
    case argsLoop =>
      intro ts h; unfold pArgsLoop at h ⊢
      cases hq : pExpression f ts with
      | fuel => simp [hq] at h
      | err e1 => rw [ih.expression _ (by simp [hq]), hq]
      | ok e1 r1 =>
        rw [ih.expression _ (by simp [hq]), hq]
        simp only [hq] at h ⊢
        cases r1 with
        | nil => rfl
        | cons t r' =>
          simp only at h ⊢
          split at h
          · rename_i hc; rw [if_pos hc, if_pos hc]
            cases hq2 : pArgsLoop f r' with
            | fuel => simp [hq2] at h
            | err e2 => rw [ih.argsLoop _ (by simp [hq2]), hq2]
            | ok es r2 => rw [ih.argsLoop _ (by simp [hq2]), hq2]
          · rename_i hc; rw [if_neg hc, if_neg hc]
    case rows =>
      intro br prev idx ts h; simp only [pRows] at h ⊢
      cases hq : pArgs f ts with
      | fuel => simp [hq] at h
      | err e1 => rw [ih.args _ (by simp [hq]), hq]
      | ok row r1 =>
        rw [ih.args _ (by simp [hq]), hq]
        simp only [hq] at h ⊢
        cases hl : prev.getLast? with
        | none => simp only [hl] at h ⊢; exact ih.rowsNext _ _ _ _ h
        | some last =>
          simp only [hl] at h ⊢
          split at h
          · rename_i hc; rw [if_pos hc, if_pos hc]
          · rename_i hc; rw [if_neg hc, if_neg hc]; exact ih.rowsNext _ _ _ _ h
    case rowsNext =>
      intro br prev idx ts h; simp only [pRowsNext] at h ⊢
      cases ts with
      | nil => rfl
      | cons t r =>
        simp only at h ⊢
        split at h
        · rename_i hc; rw [if_pos hc, if_pos hc]; exact ih.rows _ _ _ _ h
        · rename_i hc; rw [if_neg hc, if_neg hc]
    case primary =>
      intro ts h; simp only [pPrimary] at h ⊢
      cases ts with
      | nil => rfl
      | cons t r =>
        simp only at h ⊢
        cases hk : t.kind <;> simp only [hk] at h ⊢
        case lparen => exact ih.group _ _ _ h
        case pipe => exact ih.group _ _ _ h
        case lceil => exact ih.group _ _ _ h
        case lfloor => exact ih.group _ _ _ h
        case lbracket =>
          cases hq : pRows f t [] 0 r with
          | fuel => simp [hq] at h
          | err e1 => rw [ih.rows _ _ _ _ (by simp [hq]), hq]
          | ok rows r1 => rw [ih.rows _ _ _ _ (by simp [hq]), hq]
    case group =>
      intro o k ts h; simp only [pGroup] at h ⊢
      cases hq : pExpression f ts with
      | fuel => simp [hq] at h
      | err e1 => rw [ih.expression _ (by simp [hq]), hq]
      | ok e1 r1 => rw [ih.expression _ (by simp [hq]), hq]


/-- from the one-step statement to any larger fuel -/
theorem mono_of_step {α : Type} (p : Nat → α) (bad : α)
    (step : ∀ f, p f ≠ bad → p (f + 1) = p f) {f f' : Nat} (h : p f ≠ bad) (hle : f ≤ f') :
    p f' = p f := by
  induction hle with
  | refl => rfl
  | step _ ih => rw [step _ (by rw [ih]; exact h), ih]

theorem pExpression_mono {f f' : Nat} {ts : List (Tok S)} (h : pExpression f ts ≠ .fuel)
    (hle : f ≤ f') : pExpression f' ts = pExpression f ts :=
  mono_of_step (fun f => pExpression f ts) .fuel (fun f => (monoAt f).expression ts) h hle

theorem pArgs_mono {f f' : Nat} {ts : List (Tok S)} (h : pArgs f ts ≠ .fuel)
    (hle : f ≤ f') : pArgs f' ts = pArgs f ts :=
  mono_of_step (fun f => pArgs f ts) .fuel (fun f => (monoAt f).args ts) h hle

theorem pPrimary_mono {f f' : Nat} {ts : List (Tok S)} (h : pPrimary f ts ≠ .fuel)
    (hle : f ≤ f') : pPrimary f' ts = pPrimary f ts :=
  mono_of_step (fun f => pPrimary f ts) .fuel (fun f => (monoAt f).primary ts) h hle

theorem pDelete_mono {f f' : Nat} {del : Tok S} {ts : List (Tok S)} (h : pDelete f del ts ≠ .fuel)
    (hle : f ≤ f') : pDelete f' del ts = pDelete f del ts := by
  unfold pDelete at h ⊢
  cases hq : pExpression f ts with
  | fuel => simp [hq] at h
  | err e1 => rw [pExpression_mono (by simp [hq]) hle, hq]
  | ok e1 r1 => rw [pExpression_mono (by simp [hq]) hle, hq]

theorem pStatementExpr_mono {f f' : Nat} {ts : List (Tok S)}
    (h : pStatement.pStatementExpr f ts ≠ .fuel) (hle : f ≤ f') :
    pStatement.pStatementExpr f' ts = pStatement.pStatementExpr f ts := by
  unfold pStatement.pStatementExpr at h ⊢
  cases hq : pExpression f ts with
  | fuel => simp [hq] at h
  | err e1 => rw [pExpression_mono (by simp [hq]) hle, hq]
  | ok e r =>
    rw [pExpression_mono (by simp [hq]) hle, hq]
    simp only [hq] at h ⊢
    cases e with
    | ident name =>
      simp only at h ⊢
      cases r with
      | nil => rfl
      | cons eq r1 =>
        simp only at h ⊢
        split at h
        · rename_i hc; rw [if_pos hc, if_pos hc]
          cases hq2 : pExpression f r1 with
          | fuel => simp [hq2] at h
          | err e2 => rw [pExpression_mono (by simp [hq2]) hle, hq2]
          | ok e2 r2 => rw [pExpression_mono (by simp [hq2]) hle, hq2]
        · rename_i hc; rw [if_neg hc, if_neg hc]
    | call callee paren args =>
      simp only at h ⊢
      cases r with
      | nil => rfl
      | cons eq r1 =>
        simp only at h ⊢
        split at h
        · rename_i hc; rw [if_pos hc, if_pos hc]
          cases hq2 : pExpression f r1 with
          | fuel => simp [hq2] at h
          | err e2 => rw [pExpression_mono (by simp [hq2]) hle, hq2]
          | ok e2 r2 => rw [pExpression_mono (by simp [hq2]) hle, hq2]
        · rename_i hc; rw [if_neg hc, if_neg hc]
    | _ => rfl

theorem pStatement_mono {f f' : Nat} {ts : List (Tok S)} (h : pStatement f ts ≠ .fuel)
    (hle : f ≤ f') : pStatement f' ts = pStatement f ts := by
  unfold pStatement at h ⊢
  cases ts with
  | nil => exact pStatementExpr_mono h hle
  | cons t r =>
    simp only at h ⊢
    split at h
    · rename_i hc; rw [if_pos hc, if_pos hc]; exact pDelete_mono h hle
    · rename_i hc; rw [if_neg hc, if_neg hc]
      split at h
      · rename_i hc2; rw [if_pos hc2, if_pos hc2]
      · rename_i hc2; rw [if_neg hc2, if_neg hc2]; exact pStatementExpr_mono h hle

theorem parseLoop_succ_cons (inner f : Nat) (t : Tok S) (r : List (Tok S)) :
    parseLoop inner (f + 1) (t :: r) =
      if t.tag = .newline || t.tag = .semicolon then parseLoop inner f r
      else
        match pStatement inner (t :: r) with
        | .ok s rest =>
          match parseLoop inner f rest with
          | .ok ss => .ok (s :: ss)
          | other => other
        | .err e => .err e
        | .fuel => .fuel := by
  rw [parseLoop]; rfl

theorem parseLoop_nil (inner outer : Nat) : parseLoop inner outer ([] : List (Tok S)) = .ok [] := by
  cases outer <;> rfl

theorem parseLoop_zero_cons (inner : Nat) (t : Tok S) (r : List (Tok S)) :
    parseLoop inner 0 (t :: r) = .fuel := rfl

/-- more expression fuel does not change a non-`fuel` result of the statement loop -/
theorem parseLoop_mono_inner {inner inner' : Nat} (hle : inner ≤ inner') :
    ∀ (outer : Nat) (ts : List (Tok S)), parseLoop inner outer ts ≠ .fuel →
      parseLoop inner' outer ts = parseLoop inner outer ts := by
  intro outer
  induction outer with
  | zero =>
    intro ts h
    cases ts with
    | nil => rfl
    | cons t r => exact absurd (parseLoop_zero_cons inner t r) h
  | succ f ih =>
    intro ts h
    cases ts with
    | nil => rfl
    | cons t r =>
      rw [parseLoop_succ_cons] at h
      rw [parseLoop_succ_cons inner', parseLoop_succ_cons inner]
      split at h
      · rename_i hc; rw [if_pos hc, if_pos hc]; exact ih r h
      · rename_i hc; rw [if_neg hc, if_neg hc]
        cases hq : pStatement inner (t :: r) with
        | fuel => simp [hq] at h
        | err e1 => rw [pStatement_mono (by simp [hq]) hle, hq]
        | ok s rest =>
          rw [pStatement_mono (by simp [hq]) hle, hq]
          simp only [hq] at h ⊢
          have hne : parseLoop inner f rest ≠ .fuel := by
            intro hx; simp [hx] at h
          rw [ih rest hne]

theorem parseLoop_step_outer (inner : Nat) :
    ∀ (outer : Nat) (ts : List (Tok S)), parseLoop inner outer ts ≠ .fuel →
      parseLoop inner (outer + 1) ts = parseLoop inner outer ts := by
  intro outer
  induction outer with
  | zero =>
    intro ts h
    cases ts with
    | nil => rfl
    | cons t r => exact absurd (parseLoop_zero_cons inner t r) h
  | succ f ih =>
    intro ts h
    cases ts with
    | nil => rfl
    | cons t r =>
      rw [parseLoop_succ_cons] at h
      rw [parseLoop_succ_cons inner (f + 1), parseLoop_succ_cons inner f]
      split at h
      · rename_i hc; rw [if_pos hc, if_pos hc]; exact ih r h
      · rename_i hc; rw [if_neg hc, if_neg hc]
        cases hq : pStatement inner (t :: r) with
        | fuel => simp [hq] at h
        | err e1 => rfl
        | ok s rest =>
          simp only [hq] at h ⊢
          have hne : parseLoop inner f rest ≠ .fuel := by
            intro hx; simp [hx] at h
          rw [ih rest hne]

/-- more loop fuel does not change a non-`fuel` result of the statement loop -/
theorem parseLoop_mono_outer {inner outer outer' : Nat} {ts : List (Tok S)}
    (h : parseLoop inner outer ts ≠ .fuel) (hle : outer ≤ outer') :
    parseLoop inner outer' ts = parseLoop inner outer ts :=
  mono_of_step (fun o => parseLoop inner o ts) .fuel (fun o => parseLoop_step_outer inner o ts) h hle

theorem parseLoop_mono {inner inner' outer outer' : Nat} {ts : List (Tok S)}
    (h : parseLoop inner outer ts ≠ .fuel) (hi : inner ≤ inner') (ho : outer ≤ outer') :
    parseLoop inner' outer' ts = parseLoop inner outer ts := by
  have h1 := parseLoop_mono_inner hi outer ts h
  rw [← h1] at h ⊢
  exact parseLoop_mono_outer h ho


/-! ## Fuel adequacy: rank + 13 per remaining token -/

/-- an explicit linear amount of fuel never runs out — all 22 functions at one fuel value -/
structure AdequateAt (S : Type) (f : Nat) : Prop where
  expression : ∀ (ts : List (Tok S)), 10 + 13 * ts.length ≤ f → pExpression f ts ≠ .fuel
  term : ∀ (ts : List (Tok S)), 9 + 13 * ts.length ≤ f → pTerm f ts ≠ .fuel
  termLoop : ∀ acc (ts : List (Tok S)), 1 + 13 * ts.length ≤ f → pTermLoop f acc ts ≠ .fuel
  factor : ∀ (ts : List (Tok S)), 8 + 13 * ts.length ≤ f → pFactor f ts ≠ .fuel
  factorLoop : ∀ acc (ts : List (Tok S)), 1 + 13 * ts.length ≤ f → pFactorLoop f acc ts ≠ .fuel
  dot : ∀ (ts : List (Tok S)), 7 + 13 * ts.length ≤ f → pDot f ts ≠ .fuel
  dotLoop : ∀ acc (ts : List (Tok S)), 1 + 13 * ts.length ≤ f → pDotLoop f acc ts ≠ .fuel
  cross : ∀ (ts : List (Tok S)), 6 + 13 * ts.length ≤ f → pCross f ts ≠ .fuel
  crossLoop : ∀ acc (ts : List (Tok S)), 1 + 13 * ts.length ≤ f → pCrossLoop f acc ts ≠ .fuel
  exponent : ∀ (ts : List (Tok S)), 5 + 13 * ts.length ≤ f → pExponent f ts ≠ .fuel
  exponentLoop : ∀ acc (ts : List (Tok S)), 1 + 13 * ts.length ≤ f → pExponentLoop f acc ts ≠ .fuel
  unary : ∀ (ts : List (Tok S)), 4 + 13 * ts.length ≤ f → pUnary f ts ≠ .fuel
  factorial : ∀ (ts : List (Tok S)), 3 + 13 * ts.length ≤ f → pFactorial f ts ≠ .fuel
  factorialLoop : ∀ acc (ts : List (Tok S)), 1 + 13 * ts.length ≤ f → pFactorialLoop f acc ts ≠ .fuel
  call : ∀ (ts : List (Tok S)), 2 + 13 * ts.length ≤ f → pCall f ts ≠ .fuel
  callLoop : ∀ acc (ts : List (Tok S)), 1 + 13 * ts.length ≤ f → pCallLoop f acc ts ≠ .fuel
  args : ∀ (ts : List (Tok S)), 12 + 13 * ts.length ≤ f → pArgs f ts ≠ .fuel
  argsLoop : ∀ (ts : List (Tok S)), 11 + 13 * ts.length ≤ f → pArgsLoop f ts ≠ .fuel
  rows : ∀ br prev idx (ts : List (Tok S)), 13 + 13 * ts.length ≤ f → pRows f br prev idx ts ≠ .fuel
  rowsNext : ∀ br prev idx (ts : List (Tok S)),
    1 + 13 * ts.length ≤ f → pRowsNext f br prev idx ts ≠ .fuel
  primary : ∀ (ts : List (Tok S)), 1 + 13 * ts.length ≤ f → pPrimary f ts ≠ .fuel
  group : ∀ o k (ts : List (Tok S)), 11 + 13 * ts.length ≤ f → pGroup f o k ts ≠ .fuel

set_option hygiene false in
/-- `level = sub-level, then loop` -/
local macro "lvl_adq " q:term ", " ih1:term ", " sfx:term ", " ih2:term : tactic => `(tactic| (
  cases hq : $q with
  | fuel => exact absurd hq ($ih1 _ (by omega))
  | err e1 => simp
  | ok e1 r1 =>
    have hlt := (($sfx) _ _ _ hq).length_lt
    exact $ih2 _ _ (by omega)))

set_option hygiene false in
/-- `loop: operator, operand, loop` -/
local macro "loop_adq " q:term ", " ih1:term ", " sfx:term ", " ih2:term : tactic => `(tactic| (
  cases ts with
  | nil => simp
  | cons t r =>
    rw [List.length_cons] at hb
    simp only
    split
    · cases hq : $q with
      | fuel => exact absurd hq ($ih1 _ (by omega))
      | err e1 => simp
      | ok e1 r1 =>
        have hlt := (($sfx) _ _ _ hq).length_lt
        exact $ih2 _ _ (by omega)
    · simp))

theorem adequateAt : ∀ f, AdequateAt S f := by
  intro f
  induction f with
  | zero => constructor <;> intros <;> rename_i h <;> omega
  | succ f ih =>
    have sf := suffixAt (S := S) f
    constructor
    case expression =>
      intro ts hb; simp only [pExpression]
      cases hq : pTerm f ts with
      | fuel => exact absurd hq (ih.term _ (by omega))
      | err e1 => simp
      | ok e1 r1 => simp only; (repeat' split) <;> simp
    case term =>
      intro ts hb; simp only [pTerm]; lvl_adq pFactor f ts, ih.factor, sf.factor, ih.termLoop
    case factor =>
      intro ts hb; simp only [pFactor]; lvl_adq pDot f ts, ih.dot, sf.dot, ih.factorLoop
    case dot =>
      intro ts hb; simp only [pDot]; lvl_adq pCross f ts, ih.cross, sf.cross, ih.dotLoop
    case cross =>
      intro ts hb; simp only [pCross]; lvl_adq pExponent f ts, ih.exponent, sf.exponent, ih.crossLoop
    case exponent =>
      intro ts hb; simp only [pExponent]; lvl_adq pUnary f ts, ih.unary, sf.unary, ih.exponentLoop
    case factorial =>
      intro ts hb; simp only [pFactorial]; lvl_adq pCall f ts, ih.call, sf.call, ih.factorialLoop
    case call =>
      intro ts hb; simp only [pCall]; lvl_adq pPrimary f ts, ih.primary, sf.primary, ih.callLoop
    case termLoop =>
      intro acc ts hb; simp only [pTermLoop]
      loop_adq pFactor f r, ih.factor, sf.factor, ih.termLoop
    case factorLoop =>
      intro acc ts hb; simp only [pFactorLoop]
      loop_adq pDot f r, ih.dot, sf.dot, ih.factorLoop
    case dotLoop =>
      intro acc ts hb; simp only [pDotLoop]
      loop_adq pCross f r, ih.cross, sf.cross, ih.dotLoop
    case crossLoop =>
      intro acc ts hb; simp only [pCrossLoop]
      loop_adq pExponent f r, ih.exponent, sf.exponent, ih.crossLoop
    case exponentLoop =>
      intro acc ts hb; simp only [pExponentLoop]
      loop_adq pExponent f r, ih.exponent, sf.exponent, ih.exponentLoop
    case unary =>
      intro ts hb; unfold pUnary
      cases ts with
      | nil => exact ih.factorial _ (by omega)
      | cons t r =>
        rw [List.length_cons] at hb
        simp only
        split
        · cases hq : pUnary f r with
          | fuel => exact absurd hq (ih.unary _ (by omega))
          | err e1 => simp
          | ok e1 r1 => simp
        · exact ih.factorial _ (by rw [List.length_cons]; omega)
    case factorialLoop =>
      intro acc ts hb; simp only [pFactorialLoop]
      cases ts with
      | nil => simp
      | cons t r =>
        rw [List.length_cons] at hb
        simp only
        split
        · exact ih.factorialLoop _ _ (by omega)
        · simp
    case callLoop =>
      intro acc ts hb; simp only [pCallLoop]
      cases ts with
      | nil => simp
      | cons t r =>
        rw [List.length_cons] at hb
        simp only
        split
        · cases hq : pArgs f r with
          | fuel => exact absurd hq (ih.args _ (by omega))
          | err e1 => simp
          | ok e1 r1 =>
            have hle := (sf.args _ _ _ hq).length_le
            simp only
            cases hc2 : consume .rparen r1 with
            | fuel => exact absurd hc2 (consume_ne_fuel _ _)
            | err e2 => simp
            | ok t2 r2 =>
              obtain ⟨rfl, _⟩ := consume_ok hc2
              rw [List.length_cons] at hle
              exact ih.callLoop _ _ (by omega)
        · simp
    case args =>
      intro ts hb; simp only [pArgs]
      split
      · simp
      · exact ih.argsLoop _ (by omega)
    case argsLoop =>
      intro ts hb; unfold pArgsLoop
      cases hq : pExpression f ts with
      | fuel => exact absurd hq (ih.expression _ (by omega))
      | err e1 => simp
      | ok e1 r1 =>
        have hlt := (sf.expression _ _ _ hq).length_lt
        simp only
        cases r1 with
        | nil => simp
        | cons t r' =>
          rw [List.length_cons] at hlt
          simp only
          split
          · cases hq2 : pArgsLoop f r' with
            | fuel => exact absurd hq2 (ih.argsLoop _ (by omega))
            | err e2 => simp
            | ok es r2 => simp
          · simp
    case rows =>
      intro br prev idx ts hb; simp only [pRows]
      cases hq : pArgs f ts with
      | fuel => exact absurd hq (ih.args _ (by omega))
      | err e1 => simp
      | ok row r1 =>
        have hle := (sf.args _ _ _ hq).length_le
        simp only
        split
        · split
          · simp
          · exact ih.rowsNext _ _ _ _ (by omega)
        · exact ih.rowsNext _ _ _ _ (by omega)
    case rowsNext =>
      intro br prev idx ts hb; simp only [pRowsNext]
      cases ts with
      | nil => simp
      | cons t r =>
        rw [List.length_cons] at hb
        simp only
        split
        · exact ih.rows _ _ _ _ (by omega)
        · simp
    case primary =>
      intro ts hb; simp only [pPrimary]
      cases ts with
      | nil => simp
      | cons t r =>
        rw [List.length_cons] at hb
        simp only
        cases hk : t.kind <;> simp only
        case number z => (repeat' split) <;> simp
        case lparen => exact ih.group _ _ _ (by omega)
        case pipe => exact ih.group _ _ _ (by omega)
        case lceil => exact ih.group _ _ _ (by omega)
        case lfloor => exact ih.group _ _ _ (by omega)
        case lbracket =>
          cases hq : pRows f t [] 0 r with
          | fuel => exact absurd hq (ih.rows _ _ _ _ (by omega))
          | err e1 => simp
          | ok rows r1 =>
            simp only
            cases hc2 : consume .rbracket r1 with
            | fuel => exact absurd hc2 (consume_ne_fuel _ _)
            | err e2 => simp
            | ok t2 r2 => simp
        all_goals simp
    case group =>
      intro o k ts hb; simp only [pGroup]
      cases hq : pExpression f ts with
      | fuel => exact absurd hq (ih.expression _ (by omega))
      | err e1 => simp
      | ok e1 r1 =>
        simp only
        cases hc2 : consume (groupClose k) r1 with
        | fuel => exact absurd hc2 (consume_ne_fuel _ _)
        | err e2 => simp
        | ok t2 r2 => simp


theorem pExpression_adequate {f : Nat} {ts : List (Tok S)} (hb : 10 + 13 * ts.length ≤ f) :
    pExpression f ts ≠ .fuel := (adequateAt f).expression ts hb

theorem pExpression_shorter {f : Nat} {ts : List (Tok S)} {e r} (h : pExpression f ts = .ok e r) :
    Shorter ts r := (suffixAt f).expression ts e r h

theorem consumeDelim_shorter {ts : List (Tok S)} {t r} (h : consumeDelim ts = .ok t r) :
    Shorter ts r := by
  obtain ⟨rfl, _⟩ := consumeDelim_ok h
  exact ⟨[_], rfl, by simp⟩

/-! ## Statements -/

theorem pDelete_adequate {f : Nat} {del : Tok S} {ts : List (Tok S)}
    (hb : 10 + 13 * ts.length ≤ f) : pDelete f del ts ≠ .fuel := by
  unfold pDelete
  cases hq : pExpression f ts with
  | fuel => exact absurd hq (pExpression_adequate hb)
  | err e1 => simp
  | ok e r =>
    simp only
    cases e with
    | ident name =>
      simp only
      cases hc : consumeDelim r with
      | fuel => exact absurd hc (consumeDelim_ne_fuel _)
      | err e2 => simp
      | ok t2 r2 => simp
    | call callee paren args =>
      simp only
      cases hc : consumeDelim r with
      | fuel => exact absurd hc (consumeDelim_ne_fuel _)
      | err e2 => simp
      | ok t2 r2 => simp only; split <;> simp
    | _ => simp

theorem pStatementExpr_adequate {f : Nat} {ts : List (Tok S)}
    (hb : 10 + 13 * ts.length ≤ f) : pStatement.pStatementExpr f ts ≠ .fuel := by
  unfold pStatement.pStatementExpr
  cases hq : pExpression f ts with
  | fuel => exact absurd hq (pExpression_adequate hb)
  | err e1 => simp
  | ok e r =>
    have hlt := (pExpression_shorter hq).length_lt
    simp only
    have hex : (match consumeDelim r with
        | .ok _ r' => PRes.ok (Stmt.expr e) r'
        | .err e => .err e
        | .fuel => .fuel) ≠ .fuel := by
      cases hc : consumeDelim r with
      | fuel => exact absurd hc (consumeDelim_ne_fuel _)
      | err e2 => simp
      | ok t2 r2 => simp
    cases e with
    | ident name =>
      simp only
      cases r with
      | nil => exact hex
      | cons eq r1 =>
        rw [List.length_cons] at hlt
        simp only
        split
        · cases hq2 : pExpression f r1 with
          | fuel => exact absurd hq2 (pExpression_adequate (by omega))
          | err e2 => simp
          | ok e2 r2 =>
            simp only
            cases hc : consumeDelim r2 with
            | fuel => exact absurd hc (consumeDelim_ne_fuel _)
            | err e3 => simp
            | ok t3 r3 => simp
        · exact hex
    | call callee paren args =>
      simp only
      cases r with
      | nil => exact hex
      | cons eq r1 =>
        rw [List.length_cons] at hlt
        simp only
        split
        · cases hq2 : pExpression f r1 with
          | fuel => exact absurd hq2 (pExpression_adequate (by omega))
          | err e2 => simp
          | ok e2 r2 =>
            simp only
            cases hc : consumeDelim r2 with
            | fuel => exact absurd hc (consumeDelim_ne_fuel _)
            | err e3 => simp
            | ok t3 r3 => simp only; split <;> simp
        · exact hex
    | _ => exact hex

/-- `10 + 13 * (number of tokens)` units of fuel are enough for one statement -/
theorem pStatement_adequate {f : Nat} {ts : List (Tok S)}
    (hb : 10 + 13 * ts.length ≤ f) : pStatement f ts ≠ .fuel := by
  unfold pStatement
  cases ts with
  | nil => exact pStatementExpr_adequate hb
  | cons t r =>
    simp only
    split
    · exact pDelete_adequate (by rw [List.length_cons] at hb; omega)
    · split
      · cases hc : consumeDelim r with
        | fuel => exact absurd hc (consumeDelim_ne_fuel _)
        | err e2 => simp
        | ok t2 r2 => simp
      · exact pStatementExpr_adequate hb

theorem pDelete_shorter {f : Nat} {del : Tok S} {ts : List (Tok S)} {s r}
    (h : pDelete f del ts = .ok s r) : Shorter ts r := by
  unfold pDelete at h
  split at h
  · rename_i e1 r1 h1
    have s1 := pExpression_shorter h1
    split at h
    · split at h
      · rename_i t2 r2 h2
        cases h
        exact s1.trans_suffix (consumeDelim_shorter h2).suffix
      · cases h
      · cases h
    · split at h
      · rename_i t2 r2 h2
        split at h
        · cases h
          exact s1.trans_suffix (consumeDelim_shorter h2).suffix
        · cases h
      · cases h
      · cases h
    · cases h
  · cases h
  · cases h

theorem pStatementExpr_shorter {f : Nat} {ts : List (Tok S)} {s r}
    (h : pStatement.pStatementExpr f ts = .ok s r) : Shorter ts r := by
  unfold pStatement.pStatementExpr at h
  split at h
  · rename_i e1 r1 h1
    have s1 := pExpression_shorter h1
    simp only at h
    have hex : ∀ {s r}, (match consumeDelim r1 with
        | .ok _ r' => PRes.ok (Stmt.expr e1) r'
        | .err e => .err e
        | .fuel => .fuel) = .ok s r → Shorter ts r := by
      intro s r hx
      split at hx
      · rename_i t2 r2 h2
        cases hx
        exact s1.trans_suffix (consumeDelim_shorter h2).suffix
      · cases hx
      · cases hx
    split at h
    · split at h
      · split at h
        · split at h
          · rename_i e2 r2 h2
            split at h
            · rename_i t3 r3 h3
              cases h
              exact (s1.trans_suffix (Suffix.cons _ (pExpression_shorter h2).suffix).suffix).trans_suffix
                (consumeDelim_shorter h3).suffix
            · cases h
            · cases h
          · cases h
          · cases h
        · exact hex h
      · exact hex h
    · split at h
      · split at h
        · split at h
          · rename_i e2 r2 h2
            split at h
            · rename_i t3 r3 h3
              split at h
              · cases h
                exact (s1.trans_suffix (Suffix.cons _ (pExpression_shorter h2).suffix).suffix).trans_suffix
                  (consumeDelim_shorter h3).suffix
              · cases h
            · cases h
            · cases h
          · cases h
          · cases h
        · exact hex h
      · exact hex h
    · exact hex h
  · cases h
  · cases h

/-- a statement consumes at least one token -/
theorem pStatement_shorter {f : Nat} {ts : List (Tok S)} {s r}
    (h : pStatement f ts = .ok s r) : Shorter ts r := by
  unfold pStatement at h
  split at h
  · split at h
    · exact Suffix.cons _ (pDelete_shorter h).suffix
    · split at h
      · split at h
        · rename_i t2 r2 h2
          cases h
          exact Suffix.cons _ (consumeDelim_shorter h2).suffix
        · cases h
        · cases h
      · exact pStatementExpr_shorter h
  · exact pStatementExpr_shorter h


/-! ## The statement loop and `parse` -/

/-- one unit of loop fuel per token and `10 + 13 * tokens` expression fuel are enough -/
theorem parseLoop_adequate {inner : Nat} :
    ∀ (outer : Nat) (ts : List (Tok S)), ts.length ≤ outer → 10 + 13 * ts.length ≤ inner →
      parseLoop inner outer ts ≠ .fuel := by
  intro outer
  induction outer with
  | zero =>
    intro ts ho _
    cases ts with
    | nil => simp [parseLoop_nil]
    | cons t r => simp at ho
  | succ f ih =>
    intro ts ho hi
    cases ts with
    | nil => simp [parseLoop_nil]
    | cons t r =>
      rw [List.length_cons] at ho hi
      rw [parseLoop_succ_cons]
      split
      · exact ih r (by omega) (by omega)
      · cases hq : pStatement inner (t :: r) with
        | fuel => exact absurd hq (pStatement_adequate (by rw [List.length_cons]; omega))
        | err e1 => simp
        | ok s rest =>
          have hlt := (pStatement_shorter hq).length_lt
          rw [List.length_cons] at hlt
          have hne := ih rest (by omega) (by omega)
          simp only
          cases hr : parseLoop inner f rest with
          | fuel => exact absurd hr hne
          | err e2 => simp
          | ok ss => simp

theorem parseFuel_ge (n : Nat) : 10 + 13 * n ≤ parseFuel n := by
  unfold parseFuel; omega

/-- the fuel `parse` supplies never runs out -/
theorem parse_ne_fuel (ts : List (Tok S)) : parse ts ≠ .fuel :=
  parseLoop_adequate (ts.length + 1) ts (Nat.le_succ _) (parseFuel_ge _)

/-- `parse` is the fuel-independent result: any adequate fuels give the same answer -/
theorem parseLoop_eq_parse {inner outer : Nat} (ts : List (Tok S))
    (hi : 10 + 13 * ts.length ≤ inner) (ho : ts.length ≤ outer) :
    parseLoop inner outer ts = parse ts := by
  have h1 : parseLoop inner outer ts ≠ .fuel := parseLoop_adequate outer ts ho hi
  have h2 : parse ts ≠ .fuel := parse_ne_fuel ts
  have e1 := parseLoop_mono (inner' := max inner (parseFuel ts.length))
    (outer' := max outer (ts.length + 1)) h1 (Nat.le_max_left _ _) (Nat.le_max_left _ _)
  have e2 := parseLoop_mono (inner' := max inner (parseFuel ts.length))
    (outer' := max outer (ts.length + 1)) (inner := parseFuel ts.length) (outer := ts.length + 1)
    (ts := ts) h2 (Nat.le_max_right _ _) (Nat.le_max_right _ _)
  rw [← e1, e2]; rfl

end Calc
