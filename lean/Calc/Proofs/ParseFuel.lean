/-
  Calc.Proofs.ParseFuel — the parser's fuel is only a termination device:
  * monotonicity: once a function returns something other than `.fuel`, more fuel returns the same;
  * adequacy: an explicit linear amount of fuel (rank + 13 per remaining token) never runs out;
  * hence `parse ts ≠ .fuel` for every token list.
  Core Lean only.  Used by C01 and C17.
-/
import Calc.Proofs.ParseBasic
namespace Calc
variable {S : Type}

/-! ## Fuel monotonicity -/

/-- one more unit of fuel does not change a non-`fuel` answer — all 22 functions at one fuel value -/
structure MonoAt (S : Type) (f : Nat) : Prop where
  expression : ∀ (ts : List (Tok S)), pExpression f ts ≠ .fuel → pExpression (f + 1) ts = pExpression f ts
  term : ∀ (ts : List (Tok S)), pTerm f ts ≠ .fuel → pTerm (f + 1) ts = pTerm f ts
  termLoop : ∀ acc (ts : List (Tok S)),
    pTermLoop f acc ts ≠ .fuel → pTermLoop (f + 1) acc ts = pTermLoop f acc ts
  factor : ∀ (ts : List (Tok S)), pFactor f ts ≠ .fuel → pFactor (f + 1) ts = pFactor f ts
  factorLoop : ∀ acc (ts : List (Tok S)),
    pFactorLoop f acc ts ≠ .fuel → pFactorLoop (f + 1) acc ts = pFactorLoop f acc ts
  dot : ∀ (ts : List (Tok S)), pDot f ts ≠ .fuel → pDot (f + 1) ts = pDot f ts
  dotLoop : ∀ acc (ts : List (Tok S)),
    pDotLoop f acc ts ≠ .fuel → pDotLoop (f + 1) acc ts = pDotLoop f acc ts
  cross : ∀ (ts : List (Tok S)), pCross f ts ≠ .fuel → pCross (f + 1) ts = pCross f ts
  crossLoop : ∀ acc (ts : List (Tok S)),
    pCrossLoop f acc ts ≠ .fuel → pCrossLoop (f + 1) acc ts = pCrossLoop f acc ts
  exponent : ∀ (ts : List (Tok S)), pExponent f ts ≠ .fuel → pExponent (f + 1) ts = pExponent f ts
  exponentLoop : ∀ acc (ts : List (Tok S)),
    pExponentLoop f acc ts ≠ .fuel → pExponentLoop (f + 1) acc ts = pExponentLoop f acc ts
  unary : ∀ (ts : List (Tok S)), pUnary f ts ≠ .fuel → pUnary (f + 1) ts = pUnary f ts
  factorial : ∀ (ts : List (Tok S)), pFactorial f ts ≠ .fuel → pFactorial (f + 1) ts = pFactorial f ts
  factorialLoop : ∀ acc (ts : List (Tok S)),
    pFactorialLoop f acc ts ≠ .fuel → pFactorialLoop (f + 1) acc ts = pFactorialLoop f acc ts
  call : ∀ (ts : List (Tok S)), pCall f ts ≠ .fuel → pCall (f + 1) ts = pCall f ts
  callLoop : ∀ acc (ts : List (Tok S)),
    pCallLoop f acc ts ≠ .fuel → pCallLoop (f + 1) acc ts = pCallLoop f acc ts
  args : ∀ (ts : List (Tok S)), pArgs f ts ≠ .fuel → pArgs (f + 1) ts = pArgs f ts
  argsLoop : ∀ (ts : List (Tok S)), pArgsLoop f ts ≠ .fuel → pArgsLoop (f + 1) ts = pArgsLoop f ts
  rows : ∀ br prev idx (ts : List (Tok S)),
    pRows f br prev idx ts ≠ .fuel → pRows (f + 1) br prev idx ts = pRows f br prev idx ts
  rowsNext : ∀ br prev idx (ts : List (Tok S)),
    pRowsNext f br prev idx ts ≠ .fuel → pRowsNext (f + 1) br prev idx ts = pRowsNext f br prev idx ts
  primary : ∀ (ts : List (Tok S)), pPrimary f ts ≠ .fuel → pPrimary (f + 1) ts = pPrimary f ts
  group : ∀ o k (ts : List (Tok S)),
    pGroup f o k ts ≠ .fuel → pGroup (f + 1) o k ts = pGroup f o k ts

set_option hygiene false in
/-- `level = sub-level, then loop` -/
local macro "lvl_mono " q:term ", " ih1:term ", " ih2:term : tactic => `(tactic| (
  cases hq : $q with
  | fuel => simp [hq] at h
  | err e1 => rw [$ih1 _ (by simp [hq]), hq]
  | ok e1 r1 =>
    rw [$ih1 _ (by simp [hq]), hq]
    simp only [hq] at h
    exact $ih2 _ _ h))

set_option hygiene false in
/-- `loop: operator, operand, loop` -/
local macro "loop_mono " q:term ", " ih1:term ", " ih2:term : tactic => `(tactic| (
  cases ts with
  | nil => rfl
  | cons t r =>
    simp only at h ⊢
    split at h
    · rename_i hc
      rw [if_pos hc, if_pos hc]
      cases hq : $q with
      | fuel => simp [hq] at h
      | err e1 => rw [$ih1 _ (by simp [hq]), hq]
      | ok e1 r1 =>
        rw [$ih1 _ (by simp [hq]), hq]
        simp only [hq] at h
        exact $ih2 _ _ h
    · rename_i hc
      rw [if_neg hc, if_neg hc]))

theorem monoAt : ∀ f, MonoAt S f := by
  intro f
  induction f with
  | zero => constructor <;> intros <;> rename_i h <;> simp [pExpression, pTerm, pTermLoop, pFactor,
      pFactorLoop, pDot, pDotLoop, pCross, pCrossLoop, pExponent, pExponentLoop, pUnary,
      pFactorial, pFactorialLoop, pCall, pCallLoop, pArgs, pArgsLoop, pRows, pRowsNext,
      pPrimary, pGroup] at h
  | succ f ih =>
    constructor
    case expression =>
      intro ts h; simp only [pExpression] at h ⊢
      cases hq : pTerm f ts with
      | fuel => simp [hq] at h
      | err e1 => rw [ih.term _ (by simp [hq]), hq]
      | ok e1 r1 => rw [ih.term _ (by simp [hq]), hq]
    case term =>
      intro ts h; simp only [pTerm] at h ⊢
      lvl_mono pFactor f ts, ih.factor, ih.termLoop
    case factor =>
      intro ts h; simp only [pFactor] at h ⊢
      lvl_mono pDot f ts, ih.dot, ih.factorLoop
    case dot =>
      intro ts h; simp only [pDot] at h ⊢
      lvl_mono pCross f ts, ih.cross, ih.dotLoop
    case cross =>
      intro ts h; simp only [pCross] at h ⊢
      lvl_mono pExponent f ts, ih.exponent, ih.crossLoop
    case exponent =>
      intro ts h; simp only [pExponent] at h ⊢
      lvl_mono pUnary f ts, ih.unary, ih.exponentLoop
    case factorial =>
      intro ts h; simp only [pFactorial] at h ⊢
      lvl_mono pCall f ts, ih.call, ih.factorialLoop
    case call =>
      intro ts h; simp only [pCall] at h ⊢
      lvl_mono pPrimary f ts, ih.primary, ih.callLoop
    case termLoop =>
      intro acc ts h; simp only [pTermLoop] at h ⊢
      loop_mono pFactor f r, ih.factor, ih.termLoop
    case factorLoop =>
      intro acc ts h; simp only [pFactorLoop] at h ⊢
      loop_mono pDot f r, ih.dot, ih.factorLoop
    case dotLoop =>
      intro acc ts h; simp only [pDotLoop] at h ⊢
      loop_mono pCross f r, ih.cross, ih.dotLoop
    case crossLoop =>
      intro acc ts h; simp only [pCrossLoop] at h ⊢
      loop_mono pExponent f r, ih.exponent, ih.crossLoop
    case exponentLoop =>
      intro acc ts h; simp only [pExponentLoop] at h ⊢
      loop_mono pExponent f r, ih.exponent, ih.exponentLoop
    case unary =>
      intro ts h; unfold pUnary at h ⊢
      cases ts with
      | nil => simp only at h ⊢; exact ih.factorial _ h
      | cons t r =>
        simp only at h ⊢
        split at h
        · rename_i hc; rw [if_pos hc, if_pos hc]
          cases hq : pUnary f r with
          | fuel => simp [hq] at h
          | err e1 => rw [ih.unary _ (by simp [hq]), hq]
          | ok e1 r1 => rw [ih.unary _ (by simp [hq]), hq]
        · rename_i hc; rw [if_neg hc, if_neg hc]; exact ih.factorial _ h
    case factorialLoop =>
      intro acc ts h; simp only [pFactorialLoop] at h ⊢
      cases ts with
      | nil => rfl
      | cons t r =>
        simp only at h ⊢
        split at h
        · rename_i hc; rw [if_pos hc, if_pos hc]; exact ih.factorialLoop _ _ h
        · rename_i hc; rw [if_neg hc, if_neg hc]
    case callLoop =>
      intro acc ts h; simp only [pCallLoop] at h ⊢
      cases ts with
      | nil => rfl
      | cons t r =>
        simp only at h ⊢
        split at h
        · rename_i hc; rw [if_pos hc, if_pos hc]
          cases hq : pArgs f r with
          | fuel => simp [hq] at h
          | err e1 => rw [ih.args _ (by simp [hq]), hq]
          | ok e1 r1 =>
            rw [ih.args _ (by simp [hq]), hq]
            simp only [hq] at h ⊢
            cases hc2 : consume .rparen r1 with
            | fuel => rfl
            | err e2 => rfl
            | ok t2 r2 => simp only [hc2] at h ⊢; exact ih.callLoop _ _ h
        · rename_i hc; rw [if_neg hc, if_neg hc]
    case args =>
      intro ts h; simp only [pArgs] at h ⊢
      split at h
      · rename_i hc; rw [if_pos hc, if_pos hc]
      · rename_i hc; rw [if_neg hc, if_neg hc]; exact ih.argsLoop _ h
    case argsLoop =>
      intro ts h; unfold pArgsLoop at h ⊢
      cases hq : pExpression f ts with
      | fuel => simp [hq] at h
      | err e1 => rw [ih.expression _ (by simp [hq]), hq]
      | ok e1 r1 =>
        rw [ih.expression _ (by simp [hq]), hq]
        simp only [hq] at h ⊢
        cases r1 with
        | nil => rfl
        | cons t r' =>
          simp only at h ⊢
          split at h
          · rename_i hc; rw [if_pos hc, if_pos hc]
            cases hq2 : pArgsLoop f r' with
            | fuel => simp [hq2] at h
            | err e2 => rw [ih.argsLoop _ (by simp [hq2]), hq2]
            | ok es r2 => rw [ih.argsLoop _ (by simp [hq2]), hq2]
          · rename_i hc; rw [if_neg hc, if_neg hc]
    case rows =>
      intro br prev idx ts h; simp only [pRows] at h ⊢
      cases hq : pArgs f ts with
      | fuel => simp [hq] at h
      | err e1 => rw [ih.args _ (by simp [hq]), hq]
      | ok row r1 =>
        rw [ih.args _ (by simp [hq]), hq]
        simp only [hq] at h ⊢
        cases hl : prev.getLast? with
        | none => simp only [hl] at h ⊢; exact ih.rowsNext _ _ _ _ h
        | some last =>
          simp only [hl] at h ⊢
          split at h
          · rename_i hc; rw [if_pos hc, if_pos hc]
          · rename_i hc; rw [if_neg hc, if_neg hc]; exact ih.rowsNext _ _ _ _ h
    case rowsNext =>
      intro br prev idx ts h; simp only [pRowsNext] at h ⊢
      cases ts with
      | nil => rfl
      | cons t r =>
        simp only at h ⊢
        split at h
        · rename_i hc; rw [if_pos hc, if_pos hc]; exact ih.rows _ _ _ _ h
        · rename_i hc; rw [if_neg hc, if_neg hc]
    case primary =>
      intro ts h; simp only [pPrimary] at h ⊢
      cases ts with
      | nil => rfl
      | cons t r =>
        simp only at h ⊢
        cases hk : t.kind <;> simp only [hk] at h ⊢
        case lparen => exact ih.group _ _ _ h
        case pipe => exact ih.group _ _ _ h
        case lceil => exact ih.group _ _ _ h
        case lfloor => exact ih.group _ _ _ h
        case lbracket =>
          cases hq : pRows f t [] 0 r with
          | fuel => simp [hq] at h
          | err e1 => rw [ih.rows _ _ _ _ (by simp [hq]), hq]
          | ok rows r1 => rw [ih.rows _ _ _ _ (by simp [hq]), hq]
    case group =>
      intro o k ts h; simp only [pGroup] at h ⊢
      cases hq : pExpression f ts with
      | fuel => simp [hq] at h
      | err e1 => rw [ih.expression _ (by simp [hq]), hq]
      | ok e1 r1 => rw [ih.expression _ (by simp [hq]), hq]


/-- from the one-step statement to any larger fuel -/
theorem mono_of_step {α : Type} (p : Nat → α) (bad : α)
    (step : ∀ f, p f ≠ bad → p (f + 1) = p f) {f f' : Nat} (h : p f ≠ bad) (hle : f ≤ f') :
    p f' = p f := by
  induction hle with
  | refl => rfl
  | step _ ih => rw [step _ (by rw [ih]; exact h), ih]

theorem pExpression_mono {f f' : Nat} {ts : List (Tok S)} (h : pExpression f ts ≠ .fuel)
    (hle : f ≤ f') : pExpression f' ts = pExpression f ts :=
  mono_of_step (fun f => pExpression f ts) .fuel (fun f => (monoAt f).expression ts) h hle

theorem pArgs_mono {f f' : Nat} {ts : List (Tok S)} (h : pArgs f ts ≠ .fuel)
    (hle : f ≤ f') : pArgs f' ts = pArgs f ts :=
  mono_of_step (fun f => pArgs f ts) .fuel (fun f => (monoAt f).args ts) h hle

theorem pPrimary_mono {f f' : Nat} {ts : List (Tok S)} (h : pPrimary f ts ≠ .fuel)
    (hle : f ≤ f') : pPrimary f' ts = pPrimary f ts :=
  mono_of_step (fun f => pPrimary f ts) .fuel (fun f => (monoAt f).primary ts) h hle

theorem pDelete_mono {f f' : Nat} {del : Tok S} {ts : List (Tok S)} (h : pDelete f del ts ≠ .fuel)
    (hle : f ≤ f') : pDelete f' del ts = pDelete f del ts := by
  unfold pDelete at h ⊢
  cases hq : pExpression f ts with
  | fuel => simp [hq] at h
  | err e1 => rw [pExpression_mono (by simp [hq]) hle, hq]
  | ok e1 r1 => rw [pExpression_mono (by simp [hq]) hle, hq]

theorem pStatementExpr_mono {f f' : Nat} {ts : List (Tok S)}
    (h : pStatement.pStatementExpr f ts ≠ .fuel) (hle : f ≤ f') :
    pStatement.pStatementExpr f' ts = pStatement.pStatementExpr f ts := by
  unfold pStatement.pStatementExpr at h ⊢
  cases hq : pExpression f ts with
  | fuel => simp [hq] at h
  | err e1 => rw [pExpression_mono (by simp [hq]) hle, hq]
  | ok e r =>
    rw [pExpression_mono (by simp [hq]) hle, hq]
    simp only [hq] at h ⊢
    cases e with
    | ident name =>
      simp only at h ⊢
      cases r with
      | nil => rfl
      | cons eq r1 =>
        simp only at h ⊢
        split at h
        · rename_i hc; rw [if_pos hc, if_pos hc]
          cases hq2 : pExpression f r1 with
          | fuel => simp [hq2] at h
          | err e2 => rw [pExpression_mono (by simp [hq2]) hle, hq2]
          | ok e2 r2 => rw [pExpression_mono (by simp [hq2]) hle, hq2]
        · rename_i hc; rw [if_neg hc, if_neg hc]
    | call callee paren args =>
      simp only at h ⊢
      cases r with
      | nil => rfl
      | cons eq r1 =>
        simp only at h ⊢
        split at h
        · rename_i hc; rw [if_pos hc, if_pos hc]
          cases hq2 : pExpression f r1 with
          | fuel => simp [hq2] at h
          | err e2 => rw [pExpression_mono (by simp [hq2]) hle, hq2]
          | ok e2 r2 => rw [pExpression_mono (by simp [hq2]) hle, hq2]
        · rename_i hc; rw [if_neg hc, if_neg hc]
    | _ => rfl

theorem pStatement_mono {f f' : Nat} {ts : List (Tok S)} (h : pStatement f ts ≠ .fuel)
    (hle : f ≤ f') : pStatement f' ts = pStatement f ts := by
  unfold pStatement at h ⊢
  cases ts with
  | nil => exact pStatementExpr_mono h hle
  | cons t r =>
    simp only at h ⊢
    split at h
    · rename_i hc; rw [if_pos hc, if_pos hc]; exact pDelete_mono h hle
    · rename_i hc; rw [if_neg hc, if_neg hc]
      split at h
      · rename_i hc2; rw [if_pos hc2, if_pos hc2]
      · rename_i hc2; rw [if_neg hc2, if_neg hc2]; exact pStatementExpr_mono h hle

theorem parseLoop_succ_cons (inner f : Nat) (t : Tok S) (r : List (Tok S)) :
    parseLoop inner (f + 1) (t :: r) =
      if t.tag = .newline || t.tag = .semicolon then parseLoop inner f r
      else
        match pStatement inner (t :: r) with
        | .ok s rest =>
          match parseLoop inner f rest with
          | .ok ss => .ok (s :: ss)
          | other => other
        | .err e => .err e
        | .fuel => .fuel := by
  simp only [parseLoop]

theorem parseLoop_nil (inner outer : Nat) : parseLoop inner outer ([] : List (Tok S)) = .ok [] := by
  cases outer <;> rfl

theorem parseLoop_zero_cons (inner : Nat) (t : Tok S) (r : List (Tok S)) :
    parseLoop inner 0 (t :: r) = .fuel := rfl

/-- more expression fuel does not change a non-`fuel` result of the statement loop -/
theorem parseLoop_mono_inner {inner inner' : Nat} (hle : inner ≤ inner') :
    ∀ (outer : Nat) (ts : List (Tok S)), parseLoop inner outer ts ≠ .fuel →
      parseLoop inner' outer ts = parseLoop inner outer ts := by
  intro outer
  induction outer with
  | zero =>
    intro ts h
    cases ts with
    | nil => rfl
    | cons t r => exact absurd (parseLoop_zero_cons inner t r) h
  | succ f ih =>
    intro ts h
    cases ts with
    | nil => rfl
    | cons t r =>
      rw [parseLoop_succ_cons] at h
      rw [parseLoop_succ_cons inner', parseLoop_succ_cons inner]
      split at h
      · rename_i hc; rw [if_pos hc, if_pos hc]; exact ih r h
      · rename_i hc; rw [if_neg hc, if_neg hc]
        cases hq : pStatement inner (t :: r) with
        | fuel => simp [hq] at h
        | err e1 => rw [pStatement_mono (by simp [hq]) hle, hq]
        | ok s rest =>
          rw [pStatement_mono (by simp [hq]) hle, hq]
          simp only [hq] at h ⊢
          have hne : parseLoop inner f rest ≠ .fuel := by
            intro hx; simp [hx] at h
          rw [ih rest hne]

theorem parseLoop_step_outer (inner : Nat) :
    ∀ (outer : Nat) (ts : List (Tok S)), parseLoop inner outer ts ≠ .fuel →
      parseLoop inner (outer + 1) ts = parseLoop inner outer ts := by
  intro outer
  induction outer with
  | zero =>
    intro ts h
    cases ts with
    | nil => rfl
    | cons t r => exact absurd (parseLoop_zero_cons inner t r) h
  | succ f ih =>
    intro ts h
    cases ts with
    | nil => rfl
    | cons t r =>
      rw [parseLoop_succ_cons] at h
      rw [parseLoop_succ_cons inner (f + 1), parseLoop_succ_cons inner f]
      split at h
      · rename_i hc; rw [if_pos hc, if_pos hc]; exact ih r h
      · rename_i hc; rw [if_neg hc, if_neg hc]
        cases hq : pStatement inner (t :: r) with
        | fuel => simp [hq] at h
        | err e1 => rfl
        | ok s rest =>
          simp only [hq] at h ⊢
          have hne : parseLoop inner f rest ≠ .fuel := by
            intro hx; simp [hx] at h
          rw [ih rest hne]

/-- more loop fuel does not change a non-`fuel` result of the statement loop -/
theorem parseLoop_mono_outer {inner outer outer' : Nat} {ts : List (Tok S)}
    (h : parseLoop inner outer ts ≠ .fuel) (hle : outer ≤ outer') :
    parseLoop inner outer' ts = parseLoop inner outer ts :=
  mono_of_step (fun o => parseLoop inner o ts) .fuel (fun o => parseLoop_step_outer inner o ts) h hle

theorem parseLoop_mono {inner inner' outer outer' : Nat} {ts : List (Tok S)}
    (h : parseLoop inner outer ts ≠ .fuel) (hi : inner ≤ inner') (ho : outer ≤ outer') :
    parseLoop inner' outer' ts = parseLoop inner outer ts := by
  have h1 := parseLoop_mono_inner hi outer ts h
  rw [← h1] at h ⊢
  exact parseLoop_mono_outer h ho

end Calc
