/-
  Calc.Proofs.ReparseListing — every stored function comes from accepted definitions (C18).

  `FromDefs Q fn`: the printed name `fn.name` is the lexeme of an identifier token satisfying `Q`,
  and every entry `(sig, body)` of `fn` was accepted by `statement` as a definition
  `.define name sig body` from tokens satisfying `Q`.  The name token of that definition need NOT
  have the lexeme `fn.name`: after `h = f` the copy stored under `h` keeps `fn.name = "f"`, and a
  later `h(x) = …` adds an entry whose name token reads `h` to a function printed as `f`.  What
  is true, and what the listing needs, is recovered by `define_rename`: an accepted definition
  stays an accepted definition (same signature, same body) when its name token is replaced by any
  other identifier token.
-/
import Calc.Proofs.ReparseEntry
import Calc.Proofs.SigPer
namespace Calc

section Defs
variable {S : Type}

/-- the entry was accepted as a definition from tokens satisfying `Q` -/
def EntryFrom (Q : Tok S → Prop) (se : Sig S × Expr S) : Prop :=
  ∃ (f₀ : Nat) (ts₀ r₀ : List (Tok S)) (name : Tok S), (∀ t ∈ ts₀, Q t) ∧
    pStatement f₀ ts₀ = .ok (.define name se.1 se.2) r₀

/-- the text is the lexeme of an identifier token satisfying `Q` -/
def NameFrom (Q : Tok S → Prop) (n : Str) : Prop :=
  ∃ nt : Tok S, Q nt ∧ (∃ w, nt.kind = .ident w) ∧ nt.lexeme = n

/-- the function value comes from accepted definitions -/
def FromDefs (Q : Tok S → Prop) (fn : UserFn S) : Prop :=
  NameFrom Q fn.name ∧ ∀ se ∈ fn.sigs, EntryFrom Q se

/-- the statement, if a definition, was accepted from tokens satisfying `Q` -/
def StmtFrom (Q : Tok S → Prop) (s : Stmt S) : Prop :=
  ∀ name sig body, s = .define name sig body → NameFrom Q name.lexeme ∧ EntryFrom Q (sig, body)

/-- a statement phrase of tokens satisfying `Q` -/
theorem DerivesStmt.stmtFrom {Q : Tok S → Prop} {c : List (Tok S)} {s : Stmt S} {d : Tok S}
    (h : DerivesStmt c s) (hd : d.isDelim) (hc : ∀ t ∈ c, Q t) (hqd : Q d) : StmtFrom Q s := by
  intro name sig body e
  subst e
  obtain ⟨N, hN⟩ := h.complete
  have hp := hN N (Nat.le_refl _) d [] hd
  have hall : ∀ t ∈ c ++ [d], Q t := by
    intro t ht
    rcases List.mem_append.mp ht with h' | h'
    · exact hc t h'
    · simp at h'; subst h'; exact hqd
  refine ⟨?_, N, c ++ [d], [], name, hall, hp⟩
  cases h with
  | define hcall hps heq hb =>
    obtain ⟨ca, rp, n, hc1, hn, -, -, -⟩ := hcall.call_ident_inv
    exact ⟨name, hc name (by rw [hc1]; simp), ⟨n, hn⟩, rfl⟩

/-- every statement of a program read from tokens satisfying `Q` -/
theorem DerivesProgram.stmtFrom {Q : Tok S → Prop} {ts : List (Tok S)} {ss : List (Stmt S)}
    (h : DerivesProgram ts ss) : (∀ t ∈ ts, Q t) → ∀ s ∈ ss, StmtFrom Q s := by
  induction h with
  | nil => intro _ s hs; cases hs
  | skip _ _ ih => intro hq s hs; exact ih (fun t ht => hq t (List.mem_cons_of_mem _ ht)) s hs
  | @stmt c s₀ ts ss d hst hd _ ih =>
    intro hq s hs
    rcases List.mem_cons.mp hs with rfl | hs
    · exact hst.stmtFrom hd (fun t ht => hq t (by simp [ht])) (hq d (by simp))
    · exact ih (fun t ht => hq t (by simp [ht])) s hs

/-- **renaming a definition.** An accepted definition is still accepted, with the same signature
    and the same body, when its name token is replaced by another identifier token; the tokens
    are those of the definition and the new name. -/
theorem define_rename {Q : Tok S → Prop} {f₀ : Nat} {ts₀ r₀ : List (Tok S)} {name : Tok S}
    {sig : Sig S} {body : Expr S} (hq : ∀ t ∈ ts₀, Q t)
    (hp : pStatement f₀ ts₀ = .ok (.define name sig body) r₀) (nt : Tok S) (hnt : Q nt)
    (hk : ∃ w, nt.kind = .ident w) :
    ∃ (f₁ : Nat) (ts₁ : List (Tok S)), (∀ t ∈ ts₁, Q t) ∧
      pStatement f₁ ts₁ = .ok (.define nt sig body) [] := by
  obtain ⟨w, hw⟩ := hk
  obtain ⟨c, d, hts, hd, ds⟩ := pStatement_sound hp
  cases ds with
  | @define _ lp eq c₁ c₂ args ps _ hc hps heq hb =>
    obtain ⟨ca, rp, n, hc1, hn, hl, hr, hargs⟩ := hc.call_ident_inv
    have hid : Derives .call [nt] (.ident nt) := .incl rfl (.ident hw)
    have hcall : Derives .call (nt :: lp :: ca ++ [rp]) (.call (.ident nt) lp args) := by
      rcases hargs with ⟨rfl, rfl⟩ | ha
      · exact Derives.call0 hl hr hid
      · have := Derives.call hl hr hid ha
        simpa using this
    have h2 : Derives .fact _ _ := .incl rfl hcall
    have h3 : Derives .unary _ _ := .incl rfl h2
    have h4 : Derives .expo _ _ := .incl rfl h3
    have h5 : Derives .cross _ _ := .incl rfl h4
    have h6 : Derives .dot _ _ := .incl rfl h5
    have h7 : Derives .factor _ _ := .incl rfl h6
    have h8 : Derives .term _ _ := .incl rfl h7
    have h9 : Derives .expr (nt :: lp :: ca ++ [rp]) (.call (.ident nt) lp args) := .incl rfl h8
    have dstmt : DerivesStmt ((nt :: lp :: ca ++ [rp]) ++ eq :: c₂) (.define nt ⟨ps⟩ body) :=
      .define h9 hps heq hb
    obtain ⟨N, hN⟩ := dstmt.complete
    refine ⟨N, ((nt :: lp :: ca ++ [rp]) ++ eq :: c₂) ++ d :: [], ?_, hN N (Nat.le_refl _) d [] hd⟩
    intro t ht
    have hsub : ∀ t ∈ ts₀, Q t := hq
    rw [hts, hc1] at hsub
    have key : t = nt ∨ t ∈ name :: lp :: ca ++ [rp] ++ eq :: c₂ ++ d :: r₀ := by
      simp only [List.mem_append, List.mem_cons, List.not_mem_nil, or_false,
        List.cons_append] at ht ⊢
      grind
    rcases key with rfl | h
    · exact hnt
    · exact hsub _ h

/-- every entry of a function that comes from definitions is an accepted definition whose name
    token has the lexeme `fn.name` -/
theorem FromDefs.entry_named {Q : Tok S → Prop} {fn : UserFn S} (h : FromDefs Q fn)
    {se : Sig S × Expr S} (hse : se ∈ fn.sigs) :
    ∃ (f₁ : Nat) (ts₁ : List (Tok S)) (name : Tok S), (∀ t ∈ ts₁, Q t) ∧
      name.lexeme = fn.name ∧ pStatement f₁ ts₁ = .ok (.define name se.1 se.2) [] := by
  obtain ⟨⟨nt, hnt, hk, hl⟩, he⟩ := h
  obtain ⟨f₀, ts₀, r₀, name, hq, hp⟩ := he se hse
  obtain ⟨f₁, ts₁, hq₁, hp₁⟩ := define_rename hq hp nt hnt hk
  exact ⟨f₁, ts₁, nt, hq₁, hl, hp₁⟩

end Defs

/-! ### the invariant along statements, texts, sessions -/

section Inv
variable {S : Type} [Add S] [Sub S] [Mul S] [Div S] [Zero S] [One S] [Kernel S]
variable {Q : Tok S → Prop}

omit [Add S] [Sub S] [Mul S] [Div S] [Zero S] [One S] [Kernel S] in
theorem fromDefs_filterKeeps : FilterKeeps (FromDefs Q) := by
  intro fn p h _
  exact ⟨h.1, fun se hse => h.2 se (List.mem_filter.mp hse).1⟩

theorem fromDefs_step (fuel : Nat) (env : Env S) (s : Stmt S) (hs : StmtFrom Q s)
    (hinv : EnvP (FromDefs Q) env) : EnvP (FromDefs Q) (step fuel env s).env := by
  cases s with
  | define name sig body =>
    obtain ⟨hn, he⟩ := hs name sig body rfl
    have hfresh : ValP (FromDefs Q) (.user ⟨name.lexeme, [(sig, body)]⟩ : Value S) :=
      ValP.user ⟨hn, by intro se h; simp at h; subst h; exact he⟩
    simp only [step]
    split
    · next v hg =>
      split
      · exact hinv
      · split
        · next fn hfn =>
          have hgood : FromDefs Q fn := hinv.get hg fn hfn
          refine hinv.insert _ (ValP.user (fn := { fn with sigs := defineSig fn.sigs sig body })
            ⟨hgood.1, fun se h => ?_⟩) false
          rcases mem_defineSig h with h | rfl
          · exact hgood.2 se h
          · exact he
        · exact hinv
        · exact hinv.insert _ hfresh false
    · exact hinv.insert _ hfresh false
  | expr e => exact envP_step fromDefs_filterKeeps fuel env _ (by intro _ _ _ h; cases h) hinv
  | deleteVar n => exact envP_step fromDefs_filterKeeps fuel env _ (by intro _ _ _ h; cases h) hinv
  | deleteSig n g =>
    exact envP_step fromDefs_filterKeeps fuel env _ (by intro _ _ _ h; cases h) hinv
  | assign n e => exact envP_step fromDefs_filterKeeps fuel env _ (by intro _ _ _ h; cases h) hinv
  | clear => exact envP_step fromDefs_filterKeeps fuel env _ (by intro _ _ _ h; cases h) hinv

theorem fromDefs_runStmts (fuel : Nat) (ss : List (Stmt S)) :
    ∀ env : Env S, (∀ s ∈ ss, StmtFrom Q s) → EnvP (FromDefs Q) env →
      EnvP (FromDefs Q) (runStmts fuel env ss).env := by
  induction ss with
  | nil => intro env _ h; exact h
  | cons s ss ih =>
    intro env hd h
    simp only [runStmts]
    exact ih _ (fun s' hs' => hd s' (List.mem_cons_of_mem _ hs'))
      (fromDefs_step fuel env s (hd s List.mem_cons_self) h)

theorem fromDefs_processText (cfg : ScanCfg S) (fuel : Nat) (env : Env S) (text : Str)
    (hQ : ∀ ts, scan cfg text = .ok ts → ∀ t ∈ ts, Q t) (h : EnvP (FromDefs Q) env) :
    EnvP (FromDefs Q) (processText cfg fuel env text).env := by
  unfold processText
  split
  · exact h
  · exact h
  · exact h
  · next toks hs =>
    split
    · exact h
    · exact h
    · next ss hp =>
      exact fromDefs_runStmts fuel _ env ((parse_sound hp).stmtFrom (hQ toks hs)) h

theorem fromDefs_repl (cfg : ScanCfg S) (fuel : Nat)
    (hQ : ∀ text ts, scan cfg text = .ok ts → ∀ t ∈ ts, Q t) (ls : List Str) :
    ∀ env : Env S, EnvP (FromDefs Q) env → EnvP (FromDefs Q) (repl cfg fuel env ls).env := by
  induction ls with
  | nil => intro env h; exact h
  | cons l ls ih =>
    intro env h
    simp only [repl]
    split
    · exact h
    · exact ih _ (fromDefs_processText cfg fuel env _ (hQ _) h)

theorem fromDefs_session (cfg : ScanCfg S) (fuel : Nat)
    (hQ : ∀ text ts, scan cfg text = .ok ts → ∀ t ∈ ts, Q t) (init : Env S)
    (file expr : Option Str) (stdin : List Str) (h : EnvP (FromDefs Q) init) :
    EnvP (FromDefs Q) (session cfg fuel init file expr stdin).env := by
  unfold session
  cases file with
  | none =>
    cases expr with
    | none => exact fromDefs_repl cfg fuel hQ stdin _ h
    | some t => exact fromDefs_processText cfg fuel _ _ (hQ _) h
  | some f =>
    have h1 := fromDefs_processText cfg fuel init (ensureTrailingNewline f) (hQ _) h
    cases expr with
    | none => exact fromDefs_repl cfg fuel hQ stdin _ h1
    | some t => exact fromDefs_processText cfg fuel _ _ (hQ _) h1

end Inv

end Calc
