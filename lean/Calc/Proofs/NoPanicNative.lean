/-
  Calc.Proofs.NoPanicNative — a call to a native function of the table with well-formed
  arguments never reaches a panic site (C01): the arity check precedes the indexing, and the
  domain check guarantees that the generated extraction finds the kind of value it expects.
  Goes through the specification table (`C08_table : Gen.builtins = Spec.builtins`).
-/
import Calc.Props.C08
import Calc.Proofs.WfDefs
import Calc.Proofs.NoPanicMat
namespace Calc
variable {S : Type} [Add S] [Sub S] [Mul S] [Div S] [Zero S] [One S] [Kernel S]
set_option linter.unusedSectionVars false
open Calc.Gen

/-- the three ways of saying "`n` names a native function" agree -/
theorem nativeName_iff_find (n : Str) :
    NativeName n ↔ (Gen.builtins.find? (fun b => b.name.toList = n)).isSome = true := by
  unfold NativeName
  rw [List.find?_isSome]
  constructor
  · rintro ⟨s, hs, rfl⟩; exact ⟨s, hs, by simp⟩
  · rintro ⟨s, hs, h⟩; exact ⟨s, hs, by simpa using h⟩

theorem nativeName_iff_spec (n : Str) :
    NativeName n ↔ ∃ spec ∈ Spec.builtins, spec.name.toList = n := by
  unfold NativeName
  rw [Props.C08.C08_table]

/-- the kernel assumption behind `identity`: a positive integer-valued real scalar converts to a
    positive natural number (for `f64`: `x as usize ≥ 1` when `x ≥ 1`) -/
def PosToNat (S : Type) [Kernel S] : Prop :=
  ∀ z : S, Kernel.rePos z = true → Kernel.reFractIsZero z = true → Kernel.imIsZero z = true →
    0 < Kernel.reToNat z

private theorem misfit1 {p : ParamSpec} {a : Value S} (h : firstMisfit 1 [p] [a] = none) :
    fits p.constraint a = true := by
  simp only [firstMisfit] at h
  split at h
  · assumption
  · cases h

private theorem misfit2 {p q : ParamSpec} {a b : Value S}
    (h : firstMisfit 1 [p, q] [a, b] = none) :
    fits p.constraint a = true ∧ fits q.constraint b = true := by
  simp only [firstMisfit] at h
  split at h
  · next h1 =>
    split at h
    · next h2 => exact ⟨h1, h2⟩
    · cases h
  · cases h

theorem native_identity_safe (hpos : PosToNat S) (l c : Nat) (a : Value S)
    (hm : firstMisfit 1 [⟨"size", .positiveInteger⟩] [a] = none)
    (name : Str) (hname : name = "identity".toList) :
    (nativeBody name l c [a]).Safe Value.WF := by
  subst hname
  have hf := misfit1 hm
  obtain ⟨z, rfl, h1, h2, h3⟩ := (Props.C08.C08_domains a).2.2.2.1.mp hf
  obtain ⟨r, hr, hw, -, -⟩ := Mat.NoPanic.identity_ok (S := S) (hpos z h3 h2 h1)
  simp [nativeBody, numArg, Res.bind, hr, Res.Safe, Value.WF, hw]

theorem native_transpose_safe (l c : Nat) (a : Value S) (ha : a.WF)
    (hm : firstMisfit 1 [⟨"matrix", .matrix⟩] [a] = none)
    (name : Str) (hname : name = "transpose".toList) :
    (nativeBody name l c [a]).Safe Value.WF := by
  subst hname
  have hf := misfit1 hm
  obtain ⟨m, rfl⟩ := (Props.C08.C08_domains a).2.2.2.2.1.mp hf
  obtain ⟨r, hr, hw, -, -⟩ := Mat.NoPanic.transpose_ok ha
  simp [nativeBody, matArg, Res.bind, hr, Res.Safe, Value.WF, hw]

theorem native_determinant_safe (l c : Nat) (a : Value S) (ha : a.WF)
    (hm : firstMisfit 1 [⟨"matrix", .squareMatrix⟩] [a] = none)
    (name : Str) (hname : name = "determinant".toList) :
    (nativeBody name l c [a]).Safe Value.WF := by
  subst hname
  have hf := misfit1 hm
  obtain ⟨m, rfl, hsq⟩ := (Props.C08.C08_domains a).2.2.2.2.2.mp hf
  have hr := Mat.NoPanic.det_ok ha hsq
  simp [nativeBody, matArg, Res.bind, hr, Res.Safe, Value.WF]

theorem native_inverse_safe (l c : Nat) (a : Value S) (ha : a.WF)
    (hm : firstMisfit 1 [⟨"matrix", .squareMatrix⟩] [a] = none)
    (name : Str) (hname : name = "inverse".toList) :
    (nativeBody name l c [a]).Safe Value.WF := by
  subst hname
  have hf := misfit1 hm
  obtain ⟨m, rfl, hsq⟩ := (Props.C08.C08_domains a).2.2.2.2.2.mp hf
  rcases Mat.NoPanic.inverse_ok ha hsq with hr | ⟨r, hr, hw, -, -⟩
  · simp [nativeBody, matArg, Res.bind, hr, Res.Safe]
  · simp [nativeBody, matArg, Res.bind, hr, Res.Safe, Value.WF, hw]

/-- the accepted call: the body registered under a name of the specification table, on
    arguments that passed the count and domain checks -/
theorem nativeBody_safe (hpos : PosToNat S) (spec : BuiltinSpec) (hmem : spec ∈ Spec.builtins)
    (l c : Nat) (args : List (Value S)) (hargs : ∀ a ∈ args, a.WF)
    (hlen : spec.params.length = args.length)
    (hm : firstMisfit 1 spec.params args = none) :
    (nativeBody spec.name.toList l c args).Safe Value.WF := by
  simp only [Spec.builtins, Spec.num1, List.mem_cons, List.not_mem_nil, or_false] at hmem
  rcases args with _ | ⟨a, _ | ⟨b, _ | ⟨c', rest⟩⟩⟩
  · exfalso
    rcases hmem with h|h|h|h|h|h|h|h|h|h|h|h|h|h|h|h|h|h|h|h|h|h|h|h|h|h|h|h|h|h <;>
      (subst h; simp at hlen)
  · have ha : a.WF := hargs a List.mem_cons_self
    rcases hmem with h|h|h|h|h|h|h|h|h|h|h|h|h|h|h|h|h|h|h|h|h|h|h|h|h|h|h|h|h|h <;> subst h
    all_goals first
      | (simp at hlen; done)
      | exact native_identity_safe hpos l c a hm _ rfl
      | exact native_transpose_safe l c a ha hm _ rfl
      | exact native_determinant_safe l c a ha hm _ rfl
      | exact native_inverse_safe l c a ha hm _ rfl
      | (have hf := misfit1 hm
         cases a <;> simp only [fits] at hf <;> first
           | exact absurd hf Bool.false_ne_true
           | simp [nativeBody, num1, numArg, Res.bind, Res.Safe, Value.WF])
  · rcases hmem with h|h|h|h|h|h|h|h|h|h|h|h|h|h|h|h|h|h|h|h|h|h|h|h|h|h|h|h|h|h <;> subst h
    all_goals first
      | (simp at hlen; done)
      | (have hf := misfit2 hm
         cases a <;> cases b <;> simp only [fits] at hf <;> first
           | exact absurd hf.1 Bool.false_ne_true
           | exact absurd hf.2 Bool.false_ne_true
           | simp [nativeBody, numArg, Res.bind, Res.Safe, Value.WF])
  · exfalso
    rcases hmem with h|h|h|h|h|h|h|h|h|h|h|h|h|h|h|h|h|h|h|h|h|h|h|h|h|h|h|h|h|h <;>
      (subst h; simp at hlen)

theorem callNative_safe (hpos : PosToNat S) (name : Str) (hn : NativeName name) (line col : Nat)
    (args : List (Value S)) (hargs : ∀ a ∈ args, a.WF) :
    (callNative name line col args).Safe Value.WF := by
  unfold callNative
  cases hf : Gen.builtins.find? (fun b => b.name.toList = name) with
  | none =>
    have := (nativeName_iff_find name).mp hn
    rw [hf] at this
    cases this
  | some spec =>
    have hmem : spec ∈ Spec.builtins := by
      rw [← Props.C08.C08_table]; exact List.mem_of_find?_eq_some hf
    have hname : spec.name.toList = name := by simpa using List.find?_some hf
    simp only
    split
    · trivial
    · next hlen =>
      split
      · trivial
      · next hm =>
        rw [← hname]
        exact nativeBody_safe hpos spec hmem line col args hargs (by simpa using hlen) hm

end Calc
