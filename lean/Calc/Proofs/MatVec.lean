/-
  Calc.Proofs.MatVec — the vector operations of the model: `dotList` is Mathlib's `dotProduct`,
  `cross3` is Mathlib's `crossProduct`, and the fold in `vecNorm` is a sum.
-/
import Mathlib.LinearAlgebra.CrossProduct
import Calc.Model.Eval
import Calc.Proofs.MatOps

namespace Calc

set_option linter.unusedSectionVars false

open Matrix

variable {K : Type} [Field K] [CharZero K] [Kernel K] [LawfulKernel K]

/-- a list read as a vector of length `n` (entries outside the list read as `0`) -/
def toV (n : Nat) (xs : List K) : Fin n → K := fun i => xs.getD i 0

theorem foldl_add_eq_listSum (xs : List K) : xs.foldl (· + ·) 0 = xs.sum := by
  rw [List.sum_eq_foldl]

namespace Mat

theorem dotList_eq_sum (xs ys : List K) : dotList xs ys = (List.zipWith (· * ·) xs ys).sum := by
  unfold dotList; exact foldl_add_eq_listSum _

/-- the model's dot product of two lists of equal length is the dot product of the vectors -/
theorem dotList_eq_dotProduct : ∀ (n : Nat) (xs ys : List K), xs.length = n → ys.length = n →
    dotList xs ys = toV n xs ⬝ᵥ toV n ys
  | 0, xs, ys, hx, hy => by
    rw [dotList_eq_sum, List.length_eq_zero_iff.mp hx]; simp [dotProduct]
  | n+1, x :: xs, y :: ys, hx, hy => by
    have ih := dotList_eq_dotProduct n xs ys (by simpa using hx) (by simpa using hy)
    rw [dotList_eq_sum] at ih ⊢
    simp only [List.zipWith_cons_cons, List.sum_cons, dotProduct, Fin.sum_univ_succ, ih]
    simp [toV]
  | n+1, [], _, hx, _ => by simp at hx
  | n+1, _ :: _, [], _, hy => by simp at hy

theorem toV_cross3 (a1 a2 a3 b1 b2 b3 : K) :
    toV 3 (cross3 a1 a2 a3 b1 b2 b3) = crossProduct ![a1, a2, a3] ![b1, b2, b3] := by
  rw [cross_apply]
  ext i
  fin_cases i <;> simp [toV, cross3]

theorem toV_three (a1 a2 a3 : K) : toV 3 [a1, a2, a3] = ![a1, a2, a3] := by
  ext i; fin_cases i <;> simp [toV]

theorem cross3_length (a1 a2 a3 b1 b2 b3 : K) : (cross3 a1 a2 a3 b1 b2 b3).length = 3 := rfl

theorem row_isShape (xs : List K) : IsShape ([xs] : Mat K) 1 xs.length := by
  refine ⟨rfl, ?_⟩; intro row hrow; simp at hrow; subst hrow; rfl

end Mat
end Calc
