/-
  Calc.Proofs.SigLemmas — facts about signature lists (used by C13):
  `sigMatches` (arity and literal positions), `bindParams`, `callUser` (first match),
  `defineSig` (replace the first equivalent entry in place, else append), `sigEq` / `sigEquiv`,
  the invariant `PairwiseInequiv`, and the listing order.  Core Lean only.

  `Kernel.eq` is the `==` of the scalar type; it need not be reflexive (NaN).  Every lemma that
  needs reflexivity / symmetry / transitivity of it takes the hypothesis
  `heq : ∀ a b, Kernel.eq a b = true ↔ a = b` explicitly.
-/
import Calc.Model.Stmt
import Calc.Model.Print
import Calc.Proofs.EnvLemmas
namespace Calc

/-! ### a list fact: `find?` returns the first element that passes -/

theorem find?_first {α : Type} (p : α → Bool) (pre : List α) (x : α) (post : List α)
    (hx : p x = true) (hpre : ∀ y ∈ pre, p y = false) :
    (pre ++ x :: post).find? p = some x := by
  induction pre with
  | nil => simp [hx]
  | cons y ys ih =>
    have hy : p y = false := hpre y List.mem_cons_self
    simp only [List.cons_append, List.find?_cons, hy]
    exact ih (fun z hz => hpre z (List.mem_cons_of_mem _ hz))

/-- a list either splits at the first element that passes `p`, or no element passes -/
theorem first_split {α : Type} (p : α → Bool) (l : List α) :
    (∃ pre x post, l = pre ++ x :: post ∧ p x = true ∧ ∀ y ∈ pre, p y = false) ∨
    (∀ y ∈ l, p y = false) := by
  induction l with
  | nil => exact .inr (fun _ h => by cases h)
  | cons a l ih =>
    cases ha : p a with
    | true => exact .inl ⟨[], a, l, rfl, ha, fun _ h => by cases h⟩
    | false =>
      rcases ih with ⟨pre, x, post, hl, hx, hpre⟩ | hnone
      · refine .inl ⟨a :: pre, x, post, by rw [hl]; rfl, hx, ?_⟩
        intro y hy
        rcases List.mem_cons.mp hy with rfl | hy
        · exact ha
        · exact hpre y hy
      · refine .inr ?_
        intro y hy
        rcases List.mem_cons.mp hy with rfl | hy
        · exact ha
        · exact hnone y hy

/-! ### `sigMatches`: arity and literal positions -/

section Match
variable {S : Type} [Kernel S]

theorem sigMatches_nil_nil : sigMatches ([] : List (Param S)) [] = true := by
  simp [sigMatches]

theorem sigMatches_nil_cons (a : Value S) (as : List (Value S)) :
    sigMatches ([] : List (Param S)) (a :: as) = false := by
  simp [sigMatches]

theorem sigMatches_cons_nil (p : Param S) (ps : List (Param S)) :
    sigMatches (p :: ps) [] = false := by
  cases p <;> simp [sigMatches]

theorem sigMatches_ident_cons (n : Str) (ps : List (Param S)) (a : Value S)
    (as : List (Value S)) : sigMatches (.ident n :: ps) (a :: as) = sigMatches ps as := by
  simp [sigMatches]

theorem sigMatches_number_number (z w : S) (ps : List (Param S)) (as : List (Value S)) :
    sigMatches (.number z :: ps) (.number w :: as) = (Kernel.eq w z && sigMatches ps as) := by
  simp [sigMatches]

theorem sigMatches_number_other (z : S) (ps : List (Param S)) (a : Value S)
    (as : List (Value S)) (h : ∀ w, a ≠ .number w) :
    sigMatches (.number z :: ps) (a :: as) = false := by
  cases a with
  | number w => exact absurd rfl (h w)
  | measurement _ _ => simp [sigMatches]
  | matrix _ => simp [sigMatches]
  | native _ => simp [sigMatches]
  | user _ => simp [sigMatches]

/-- A signature matches an argument list exactly when the counts agree and at every position
    holding a literal parameter `z` the argument is a plain number `w` with `w == z`.
    (Named parameters accept any value.) -/
theorem sigMatches_iff (ps : List (Param S)) (as : List (Value S)) :
    sigMatches ps as = true ↔
      ps.length = as.length ∧
      ∀ (i : Nat) (z : S), ps[i]? = some (Param.number z) →
        ∃ w : S, as[i]? = some (Value.number w) ∧ Kernel.eq w z = true := by
  induction ps generalizing as with
  | nil =>
    cases as with
    | nil => simp [sigMatches_nil_nil]
    | cons a as => simp [sigMatches_nil_cons]
  | cons p ps ih =>
    cases as with
    | nil => simp [sigMatches_cons_nil]
    | cons a as =>
      cases p with
      | ident n =>
        rw [sigMatches_ident_cons, ih]
        constructor
        · rintro ⟨hl, h⟩
          refine ⟨by simp [hl], ?_⟩
          intro i z hi
          cases i with
          | zero => simp at hi
          | succ i => simpa using h i z (by simpa using hi)
        · rintro ⟨hl, h⟩
          refine ⟨by simpa using hl, fun i z hi => ?_⟩
          simpa using h (i + 1) z (by simpa using hi)
      | number z =>
        by_cases hnum : ∃ w, a = .number w
        · obtain ⟨w, rfl⟩ := hnum
          rw [sigMatches_number_number, Bool.and_eq_true, ih]
          constructor
          · rintro ⟨hw, hl, h⟩
            refine ⟨by simp [hl], ?_⟩
            intro i z' hi
            cases i with
            | zero =>
              simp only [List.getElem?_cons_zero, Option.some.injEq, Param.number.injEq] at hi
              subst hi
              exact ⟨w, by simp, hw⟩
            | succ i => simpa using h i z' (by simpa using hi)
          · rintro ⟨hl, h⟩
            obtain ⟨w', hw', he⟩ := h 0 z (by simp)
            simp only [List.getElem?_cons_zero, Option.some.injEq, Value.number.injEq] at hw'
            subst hw'
            refine ⟨he, by simpa using hl, fun i z' hi => ?_⟩
            simpa using h (i + 1) z' (by simpa using hi)
        · have hn : ∀ w, a ≠ .number w := fun w e => hnum ⟨w, e⟩
          rw [sigMatches_number_other z ps a as hn]
          constructor
          · intro h; cases h
          · rintro ⟨-, h⟩
            obtain ⟨w, hw, -⟩ := h 0 z (by simp)
            simp only [List.getElem?_cons_zero, Option.some.injEq] at hw
            exact absurd hw (hn w)

theorem sigMatches_length {ps : List (Param S)} {as : List (Value S)}
    (h : sigMatches ps as = true) : ps.length = as.length :=
  ((sigMatches_iff ps as).mp h).1

end Match

/-! ### `bindParams` -/

section Bind
variable {S : Type}

theorem bindParams_nil (as : List (Value S)) (env : Env S) : bindParams [] as env = env := by
  simp [bindParams]

theorem bindParams_cons_nil (p : Param S) (ps : List (Param S)) (env : Env S) :
    bindParams (p :: ps) [] env = env := by
  cases p <;> simp [bindParams]

theorem bindParams_ident (n : Str) (ps : List (Param S)) (a : Value S) (as : List (Value S))
    (env : Env S) :
    bindParams (.ident n :: ps) (a :: as) env = bindParams ps as (Env.insert env n ⟨a, false⟩) := by
  simp [bindParams]

theorem bindParams_number (z : S) (ps : List (Param S)) (a : Value S) (as : List (Value S))
    (env : Env S) : bindParams (.number z :: ps) (a :: as) env = bindParams ps as env := by
  simp [bindParams]

/-- names that are not parameters are read from the call-time environment -/
theorem bindParams_get_of_not_param (ps : List (Param S)) :
    ∀ (as : List (Value S)) (env : Env S) (k : Str), Param.ident k ∉ ps →
      Env.get (bindParams ps as env) k = Env.get env k := by
  induction ps with
  | nil => intro as env k _; rw [bindParams_nil]
  | cons p ps ih =>
    intro as env k hk
    have hk' : Param.ident k ∉ ps := fun h => hk (List.mem_cons_of_mem _ h)
    cases as with
    | nil => rw [bindParams_cons_nil]
    | cons a as =>
      cases p with
      | ident n =>
        have hne : k ≠ n := by
          intro e; subst e; exact hk List.mem_cons_self
        rw [bindParams_ident, ih as _ k hk', Env.get_insert_ne env _ hne]
      | number z => rw [bindParams_number, ih as _ k hk']

/-- a named parameter is bound (non-constant) to the argument at the LAST position where the
    name occurs in the parameter list -/
theorem bindParams_get_last (ps : List (Param S)) :
    ∀ (as : List (Value S)) (env : Env S) (n : Str) (i : Nat) (a : Value S),
      ps[i]? = some (.ident n) → as[i]? = some a →
      (∀ j, i < j → ps[j]? ≠ some (.ident n)) →
      Env.get (bindParams ps as env) n = some ⟨a, false⟩ := by
  induction ps with
  | nil => intro as env n i a hp; simp at hp
  | cons p ps ih =>
    intro as env n i a hp ha hlast
    cases as with
    | nil => simp at ha
    | cons a' as =>
      cases i with
      | zero =>
        simp only [List.getElem?_cons_zero, Option.some.injEq] at hp ha
        subst hp; subst ha
        have hnot : Param.ident n ∉ ps := by
          intro hm
          obtain ⟨j, hj⟩ := List.mem_iff_getElem?.mp hm
          exact hlast (j + 1) (Nat.succ_pos j) (by simpa using hj)
        rw [bindParams_ident, bindParams_get_of_not_param ps as _ n hnot, Env.get_insert_self]
      | succ i =>
        have hp' : ps[i]? = some (.ident n) := by simpa using hp
        have ha' : as[i]? = some a := by simpa using ha
        have hlast' : ∀ j, i < j → ps[j]? ≠ some (.ident n) := by
          intro j hj
          simpa using hlast (j + 1) (Nat.succ_lt_succ hj)
        cases p with
        | ident m => rw [bindParams_ident]; exact ih as _ n i a hp' ha' hlast'
        | number z => rw [bindParams_number]; exact ih as _ n i a hp' ha' hlast'

end Bind

/-! ### `callUser`: the first matching signature, in list order, runs -/

section Call
variable {S : Type} [Kernel S]

theorem callUser_first (ev : Evaluator S) (fn : UserFn S) (line col : Nat)
    (args : List (Value S)) (env : Env S) (pre post : List (Sig S × Expr S)) (sig : Sig S)
    (body : Expr S) (hs : fn.sigs = pre ++ (sig, body) :: post)
    (hm : sigMatches sig.params args = true)
    (hpre : ∀ se ∈ pre, sigMatches se.1.params args = false) :
    callUser ev fn line col args env = (ev body (bindParams sig.params args env)).res := by
  unfold callUser
  rw [hs, find?_first (fun se : Sig S × Expr S => sigMatches se.1.params args) pre (sig, body)
    post hm hpre]

theorem callUser_none (ev : Evaluator S) (fn : UserFn S) (line col : Nat)
    (args : List (Value S)) (env : Env S)
    (hnone : ∀ se ∈ fn.sigs, sigMatches se.1.params args = false) :
    callUser ev fn line col args env = .diag ⟨.noMatchingSignature, line, col, fn.name⟩ := by
  unfold callUser
  have : fn.sigs.find? (fun se => sigMatches se.1.params args) = none := by
    rw [List.find?_eq_none]
    intro x hx
    simp [hnone x hx]
  rw [this]

end Call

/-! ### `sigEq`, `sigEquiv` -/

section Equiv
variable {S : Type} [Kernel S]

/-- what `sigEquiv` compares: the literal, or "a name" -/
def Param.shape : Param S → Option S
  | .ident _ => none
  | .number z => some z

theorem sigEquiv_nil_nil : sigEquiv ([] : List (Param S)) [] = true := by simp [sigEquiv]

theorem sigEquiv_cons_cons (p q : Param S) (ps qs : List (Param S)) :
    sigEquiv (p :: ps) (q :: qs) = (paramEquiv p q && sigEquiv ps qs) := by simp [sigEquiv]

theorem sigEquiv_nil_cons (q : Param S) (qs : List (Param S)) :
    sigEquiv [] (q :: qs) = false := by simp [sigEquiv]

theorem sigEquiv_cons_nil (p : Param S) (ps : List (Param S)) :
    sigEquiv (p :: ps) [] = false := by simp [sigEquiv]

theorem sigEq_nil_nil : sigEq ([] : List (Param S)) [] = true := by simp [sigEq]

theorem sigEq_cons_cons (p q : Param S) (ps qs : List (Param S)) :
    sigEq (p :: ps) (q :: qs) = (paramEq p q && sigEq ps qs) := by simp [sigEq]

theorem sigEq_nil_cons (q : Param S) (qs : List (Param S)) :
    sigEq [] (q :: qs) = false := by simp [sigEq]

theorem sigEq_cons_nil (p : Param S) (ps : List (Param S)) :
    sigEq (p :: ps) [] = false := by simp [sigEq]

/-- equal parameters are equivalent parameters (no assumption on `Kernel.eq`) -/
theorem paramEquiv_of_paramEq {p q : Param S} (h : paramEq p q = true) :
    paramEquiv p q = true := by
  cases p <;> cases q <;> simp_all [paramEq, paramEquiv]

/-- `==` on signatures implies `equivalent` (no assumption on `Kernel.eq`) -/
theorem sigEquiv_of_sigEq : ∀ {ps qs : List (Param S)}, sigEq ps qs = true →
    sigEquiv ps qs = true := by
  intro ps
  induction ps with
  | nil =>
    intro qs h
    cases qs with
    | nil => exact sigEquiv_nil_nil
    | cons q qs => rw [sigEq_nil_cons] at h; cases h
  | cons p ps ih =>
    intro qs h
    cases qs with
    | nil => rw [sigEq_cons_nil] at h; cases h
    | cons q qs =>
      rw [sigEq_cons_cons, Bool.and_eq_true] at h
      rw [sigEquiv_cons_cons, Bool.and_eq_true]
      exact ⟨paramEquiv_of_paramEq h.1, ih h.2⟩

theorem sigEquiv_length : ∀ {ps qs : List (Param S)}, sigEquiv ps qs = true →
    ps.length = qs.length := by
  intro ps
  induction ps with
  | nil =>
    intro qs h
    cases qs with
    | nil => rfl
    | cons q qs => rw [sigEquiv_nil_cons] at h; cases h
  | cons p ps ih =>
    intro qs h
    cases qs with
    | nil => rw [sigEquiv_cons_nil] at h; cases h
    | cons q qs =>
      rw [sigEquiv_cons_cons, Bool.and_eq_true] at h
      simp [ih h.2]

variable (heq : ∀ a b : S, Kernel.eq a b = true ↔ a = b)
include heq

theorem paramEquiv_iff (p q : Param S) : paramEquiv p q = true ↔ p.shape = q.shape := by
  cases p <;> cases q <;> simp [paramEquiv, Param.shape, heq]

/-- when `Kernel.eq` is equality, two signatures are equivalent exactly when they have the same
    literals in the same positions and names elsewhere -/
theorem sigEquiv_iff (ps qs : List (Param S)) :
    sigEquiv ps qs = true ↔ ps.map Param.shape = qs.map Param.shape := by
  induction ps generalizing qs with
  | nil =>
    cases qs with
    | nil => simp [sigEquiv_nil_nil]
    | cons q qs => simp [sigEquiv_nil_cons]
  | cons p ps ih =>
    cases qs with
    | nil => simp [sigEquiv_cons_nil]
    | cons q qs =>
      rw [sigEquiv_cons_cons, Bool.and_eq_true, paramEquiv_iff heq, ih]
      simp

theorem sigEquiv_refl (ps : List (Param S)) : sigEquiv ps ps = true :=
  (sigEquiv_iff heq ps ps).mpr rfl

theorem sigEquiv_symm {ps qs : List (Param S)} (h : sigEquiv ps qs = true) :
    sigEquiv qs ps = true :=
  (sigEquiv_iff heq qs ps).mpr ((sigEquiv_iff heq ps qs).mp h).symm

theorem sigEquiv_trans {ps qs rs : List (Param S)} (h1 : sigEquiv ps qs = true)
    (h2 : sigEquiv qs rs = true) : sigEquiv ps rs = true :=
  (sigEquiv_iff heq ps rs).mpr
    (((sigEquiv_iff heq ps qs).mp h1).trans ((sigEquiv_iff heq qs rs).mp h2))

/-- in `Bool` form, for rewriting inequivalence along an equivalence -/
theorem sigEquiv_congr_right {ps qs rs : List (Param S)} (h : sigEquiv qs rs = true) :
    sigEquiv ps qs = sigEquiv ps rs := by
  cases h1 : sigEquiv ps rs with
  | true => exact sigEquiv_trans heq h1 (sigEquiv_symm heq h)
  | false =>
    cases h2 : sigEquiv ps qs with
    | false => rfl
    | true => rw [sigEquiv_trans heq h2 h] at h1; cases h1

theorem sigEquiv_comm (ps qs : List (Param S)) : sigEquiv ps qs = sigEquiv qs ps := by
  cases h1 : sigEquiv qs ps with
  | true => exact sigEquiv_symm heq h1
  | false =>
    cases h2 : sigEquiv ps qs with
    | false => rfl
    | true => rw [sigEquiv_symm heq h2] at h1; cases h1

end Equiv

/-! ### `defineSig` -/

section Define
variable {S : Type} [Kernel S]

theorem defineSig_nil (sig : Sig S) (body : Expr S) : defineSig [] sig body = [(sig, body)] := rfl

theorem defineSig_cons (s : Sig S) (b : Expr S) (rest : List (Sig S × Expr S)) (sig : Sig S)
    (body : Expr S) :
    defineSig ((s, b) :: rest) sig body =
      if sigEquiv s.params sig.params then (sig, body) :: rest
      else (s, b) :: defineSig rest sig body := rfl

/-- an equivalent entry exists: the FIRST one is replaced in place -/
theorem defineSig_replace (pre post : List (Sig S × Expr S)) (s : Sig S) (b : Expr S)
    (sig : Sig S) (body : Expr S) (he : sigEquiv s.params sig.params = true)
    (hpre : ∀ e ∈ pre, sigEquiv e.1.params sig.params = false) :
    defineSig (pre ++ (s, b) :: post) sig body = pre ++ (sig, body) :: post := by
  induction pre with
  | nil => simp [defineSig_cons, he]
  | cons e pre ih =>
    obtain ⟨s', b'⟩ := e
    have h' : sigEquiv s'.params sig.params = false := hpre (s', b') List.mem_cons_self
    simp only [List.cons_append, defineSig_cons, h', Bool.false_eq_true, if_false]
    rw [ih (fun e he => hpre e (List.mem_cons_of_mem _ he))]

/-- no equivalent entry: the new entry is appended -/
theorem defineSig_append (sigs : List (Sig S × Expr S)) (sig : Sig S) (body : Expr S)
    (hnone : ∀ e ∈ sigs, sigEquiv e.1.params sig.params = false) :
    defineSig sigs sig body = sigs ++ [(sig, body)] := by
  induction sigs with
  | nil => rfl
  | cons e sigs ih =>
    obtain ⟨s', b'⟩ := e
    have h' : sigEquiv s'.params sig.params = false := hnone (s', b') List.mem_cons_self
    simp only [List.cons_append, defineSig_cons, h', Bool.false_eq_true, if_false]
    rw [ih (fun e he => hnone e (List.mem_cons_of_mem _ he))]

theorem defineSig_ne_nil (sigs : List (Sig S × Expr S)) (sig : Sig S) (body : Expr S) :
    defineSig sigs sig body ≠ [] := by
  cases sigs with
  | nil => simp [defineSig_nil]
  | cons e sigs =>
    obtain ⟨s', b'⟩ := e
    rw [defineSig_cons]
    split <;> simp

theorem mem_defineSig {sigs : List (Sig S × Expr S)} {sig : Sig S} {body : Expr S}
    {e : Sig S × Expr S} (h : e ∈ defineSig sigs sig body) : e ∈ sigs ∨ e = (sig, body) := by
  induction sigs with
  | nil => simpa [defineSig_nil] using h
  | cons e' sigs ih =>
    obtain ⟨s', b'⟩ := e'
    rw [defineSig_cons] at h
    split at h
    · rcases List.mem_cons.mp h with h | h
      · exact .inr h
      · exact .inl (List.mem_cons_of_mem _ h)
    · rcases List.mem_cons.mp h with h | h
      · exact .inl (h ▸ List.mem_cons_self)
      · rcases ih h with h | h
        · exact .inl (List.mem_cons_of_mem _ h)
        · exact .inr h

/-- the signature lists the invariant of C13 speaks about: no two entries equivalent -/
def PairwiseInequiv (sigs : List (Sig S × Expr S)) : Prop :=
  sigs.Pairwise (fun a b => sigEquiv a.1.params b.1.params = false)

theorem PairwiseInequiv.nil : PairwiseInequiv ([] : List (Sig S × Expr S)) := List.Pairwise.nil

theorem PairwiseInequiv.singleton (e : Sig S × Expr S) : PairwiseInequiv [e] :=
  List.pairwise_singleton _ _

/-- filtering keeps the invariant (used for signature deletion) -/
theorem PairwiseInequiv.filter {sigs : List (Sig S × Expr S)} (h : PairwiseInequiv sigs)
    (p : Sig S × Expr S → Bool) : PairwiseInequiv (sigs.filter p) :=
  List.Pairwise.filter p h

/-- a definition keeps the invariant, when `Kernel.eq` is equality -/
theorem PairwiseInequiv.defineSig (heq : ∀ a b : S, Kernel.eq a b = true ↔ a = b)
    {sigs : List (Sig S × Expr S)} (h : PairwiseInequiv sigs) (sig : Sig S) (body : Expr S) :
    PairwiseInequiv (defineSig sigs sig body) := by
  induction sigs with
  | nil => exact PairwiseInequiv.singleton _
  | cons e sigs ih =>
    obtain ⟨s', b'⟩ := e
    unfold PairwiseInequiv at h ih ⊢
    rw [List.pairwise_cons] at h
    rw [defineSig_cons]
    split
    · next he =>
      rw [List.pairwise_cons]
      refine ⟨?_, h.2⟩
      intro e hm
      have := h.1 e hm
      rw [sigEquiv_comm heq, ← sigEquiv_congr_right heq he, sigEquiv_comm heq]
      exact this
    · next he =>
      rw [List.pairwise_cons]
      refine ⟨?_, ih h.2⟩
      intro e hm
      rcases mem_defineSig hm with hm | rfl
      · exact h.1 e hm
      · simpa using he

/-! ### deletion: `sigs.filter (¬ sigEq · sig)` -/

theorem countP_le_one_of_pairwise {α : Type} (p : α → Bool) (R : α → α → Prop) (l : List α)
    (hR : l.Pairwise R) (hp : ∀ a b, R a b → p a = true → p b = true → False) :
    l.countP p ≤ 1 := by
  induction l with
  | nil => simp
  | cons a l ih =>
    rw [List.pairwise_cons] at hR
    rw [List.countP_cons]
    cases ha : p a with
    | false => simpa using ih hR.2
    | true =>
      have : l.countP p = 0 := by
        rw [List.countP_eq_zero]
        intro b hb hpb
        exact hp a b (hR.1 b hb) ha hpb
      simp [this]

/-- under the invariant (and `Kernel.eq` equality) at most one entry is `==` to a given
    signature -/
theorem countP_sigEq_le_one (heq : ∀ a b : S, Kernel.eq a b = true ↔ a = b)
    {sigs : List (Sig S × Expr S)} (h : PairwiseInequiv sigs) (sig : Sig S) :
    sigs.countP (fun se => sigEq se.1.params sig.params) ≤ 1 := by
  apply countP_le_one_of_pairwise _ _ sigs h
  intro a b hab ha hb
  have h1 := sigEquiv_of_sigEq ha
  have h2 := sigEquiv_of_sigEq hb
  rw [sigEquiv_trans heq h1 (sigEquiv_symm heq h2)] at hab
  cases hab

theorem length_filter_not_add_countP {α : Type} (p : α → Bool) (l : List α) :
    (l.filter (fun a => !p a)).length + l.countP p = l.length := by
  induction l with
  | nil => rfl
  | cons a l ih =>
    cases ha : p a with
    | false => simp [ha]; omega
    | true => simp [ha]; omega

theorem filter_not_length_eq_iff {α : Type} (p : α → Bool) (l : List α) :
    (l.filter (fun a => !p a)).length = l.length ↔ ∀ a ∈ l, p a = false := by
  have h := length_filter_not_add_countP p l
  constructor
  · intro he
    have h0 : l.countP p = 0 := by omega
    rw [List.countP_eq_zero] at h0
    intro a ha
    cases hpa : p a with
    | false => rfl
    | true => exact absurd hpa (h0 a ha)
  · intro hall
    have h0 : l.countP p = 0 := by
      rw [List.countP_eq_zero]
      intro a ha
      simp [hall a ha]
    omega

/-- under the invariant (and `Kernel.eq` equality), deleting a signature that is present removes
    exactly that one entry: everything before and after it is kept, in order -/
theorem filter_sigEq_remove_exactly (heq : ∀ a b : S, Kernel.eq a b = true ↔ a = b)
    (pre post : List (Sig S × Expr S)) (s : Sig S) (b : Expr S) (sig : Sig S)
    (h : PairwiseInequiv (pre ++ (s, b) :: post)) (hs : sigEq s.params sig.params = true) :
    (pre ++ (s, b) :: post).filter (fun se => !sigEq se.1.params sig.params) = pre ++ post := by
  unfold PairwiseInequiv at h
  rw [List.pairwise_append, List.pairwise_cons] at h
  obtain ⟨-, ⟨hpost, -⟩, hpre⟩ := h
  have hse := sigEquiv_of_sigEq hs
  have h1 : ∀ e ∈ pre, (!sigEq e.1.params sig.params) = true := by
    intro e he
    cases hq : sigEq e.1.params sig.params with
    | false => rfl
    | true =>
      have := hpre e he (s, b) List.mem_cons_self
      rw [sigEquiv_trans heq (sigEquiv_of_sigEq hq) (sigEquiv_symm heq hse)] at this
      cases this
  have h2 : ∀ e ∈ post, (!sigEq e.1.params sig.params) = true := by
    intro e he
    cases hq : sigEq e.1.params sig.params with
    | false => rfl
    | true =>
      have := hpost e he
      rw [sigEquiv_trans heq hse (sigEquiv_symm heq (sigEquiv_of_sigEq hq))] at this
      cases this
  rw [List.filter_append, List.filter_cons]
  simp only [hs, Bool.not_true, Bool.false_eq_true, if_false]
  rw [List.filter_eq_self.mpr h1, List.filter_eq_self.mpr h2]

end Define

/-! ### listing order -/

section Listing
variable {S : Type} [Kernel S]

theorem showUserFn_eq (fn : UserFn S) :
    showUserFn fn = joinWith ['\n'] (fn.sigs.map (showSigEntry fn.name)) := rfl

theorem listing_getElem? (fn : UserFn S) (i : Nat) :
    (fn.sigs.map (showSigEntry fn.name))[i]? = (fn.sigs[i]?).map (showSigEntry fn.name) :=
  List.getElem?_map

/-- `joinWith` keeps the pieces in order: it is the first piece, then (if more follow) the
    separator and the join of the rest -/
theorem joinWith_cons_cons (sep x y : Str) (ys : List Str) :
    joinWith sep (x :: y :: ys) = x ++ sep ++ joinWith sep (y :: ys) := rfl

theorem joinWith_singleton (sep x : Str) : joinWith sep [x] = x := rfl

end Listing

end Calc
