/-
  Calc.Proofs.DecimalRound — `Calc.Exec.decimalToBits` is the correctly rounded
  (round-to-nearest, ties-to-even) binary64 of the decimal `m · 10^e`, for all `m`, `e`.
-/
import Mathlib.Data.Rat.Defs
import Mathlib.Algebra.Order.Field.Basic
import Mathlib.Algebra.Order.Field.Rat
import Mathlib.Algebra.Order.Field.Power
import Mathlib.Algebra.Order.AbsoluteValue.Basic
import Mathlib.Tactic.Ring
import Mathlib.Tactic.Linarith
import Mathlib.Tactic.NormNum
import Mathlib.Tactic.Positivity
import Mathlib.Tactic.FieldSimp
import Calc.Exec.FloatFmt
import Calc.Proofs.Lawful

namespace Calc.Proofs.DecimalRound
open Calc Calc.Exec

/-! ### Nat division against ℚ division -/

theorem natdiv_le_iff {n d K : Nat} (hd : 0 < d) : K ≤ n / d ↔ (K : ℚ) ≤ (n : ℚ) / d := by
  have hd' : (0 : ℚ) < d := by exact_mod_cast hd
  rw [Nat.le_div_iff_mul_le hd, le_div_iff₀ hd']
  exact_mod_cast Iff.rfl

theorem natdiv_lt_iff {n d K : Nat} (hd : 0 < d) : n / d < K ↔ (n : ℚ) / d < (K : ℚ) := by
  have hd' : (0 : ℚ) < d := by exact_mod_cast hd
  rw [Nat.div_lt_iff_lt_mul hd, div_lt_iff₀ hd']
  exact_mod_cast Iff.rfl

/-! ### `divRoundEven` is the nearest integer, ties to even -/

theorem divRoundEven_spec (n d : Nat) (hd : 0 < d) :
    |(divRoundEven n d : ℚ) - (n : ℚ) / d| ≤ 1 / 2 ∧
    (|(divRoundEven n d : ℚ) - (n : ℚ) / d| = 1 / 2 → divRoundEven n d % 2 = 0) := by
  have hd' : (0 : ℚ) < d := by exact_mod_cast hd
  have hdm : (n : ℚ) = d * (n / d : ℕ) + (n % d : ℕ) := by exact_mod_cast (Nat.div_add_mod n d).symm
  have hml : ((n % d : ℕ) : ℚ) < d := by exact_mod_cast Nat.mod_lt n hd
  have hr0 : (0 : ℚ) ≤ ((n % d : ℕ) : ℚ) := by positivity
  -- t = fractional part
  obtain ⟨t, ht⟩ : ∃ t : ℚ, t = ((n % d : ℕ) : ℚ) / d := ⟨_, rfl⟩
  have ht0 : 0 ≤ t := by rw [ht]; positivity
  have ht1 : t < 1 := by rw [ht, div_lt_one hd']; exact hml
  have hx : (n : ℚ) / d = (n / d : ℕ) + t := by
    rw [ht, hdm]; field_simp
  have hgt : 2 * (n % d) > d ↔ 1 / 2 < t := by
    rw [ht, lt_div_iff₀ hd']
    constructor
    · intro h; have : (d : ℚ) < 2 * (n % d : ℕ) := by exact_mod_cast h
      linarith
    · intro h; have : (d : ℚ) < 2 * (n % d : ℕ) := by linarith
      exact_mod_cast this
  have hlt : 2 * (n % d) < d ↔ t < 1 / 2 := by
    rw [ht, div_lt_iff₀ hd']
    constructor
    · intro h; have : 2 * ((n % d : ℕ) : ℚ) < d := by exact_mod_cast h
      linarith
    · intro h; have : 2 * ((n % d : ℕ) : ℚ) < d := by linarith
      exact_mod_cast this
  rw [hx]
  unfold divRoundEven
  simp only []
  by_cases h1 : 2 * (n % d) > d
  · have h1' := hgt.1 h1
    rw [if_pos h1]
    push_cast
    have e : ((n / d : ℕ) : ℚ) + 1 - ((n / d : ℕ) + t) = 1 - t := by ring
    rw [e, abs_of_nonneg (by linarith)]
    exact ⟨by linarith, fun h => by linarith⟩
  · rw [if_neg h1]
    by_cases h2 : 2 * (n % d) < d
    · have h2' := hlt.1 h2
      rw [if_pos h2]
      have e : ((n / d : ℕ) : ℚ) - ((n / d : ℕ) + t) = -t := by ring
      rw [e, abs_neg, abs_of_nonneg ht0]
      exact ⟨by linarith, fun h => by linarith⟩
    · rw [if_neg h2]
      have hhalf : t = 1 / 2 := by
        have a1 : ¬ (1 / 2 < t) := fun h => h1 (hgt.2 h)
        have a2 : ¬ (t < 1 / 2) := fun h => h2 (hlt.2 h)
        linarith [not_lt.1 a1, not_lt.1 a2]
      by_cases h3 : n / d % 2 = 0
      · rw [if_pos h3]
        have e : ((n / d : ℕ) : ℚ) - ((n / d : ℕ) + t) = -t := by ring
        rw [e, abs_neg, abs_of_nonneg ht0]
        exact ⟨by linarith, fun _ => h3⟩
      · rw [if_neg h3]
        push_cast
        have e : ((n / d : ℕ) : ℚ) + 1 - ((n / d : ℕ) + t) = 1 - t := by ring
        rw [e, abs_of_nonneg (by linarith)]
        exact ⟨by linarith, fun _ => by omega⟩

/-! ### scaling by a power of two -/

theorem scalePow2_spec (num den : Nat) (hden : 0 < den) (s : Int) :
    0 < (scalePow2 num den s).2 ∧
    ((scalePow2 num den s).1 : ℚ) / (scalePow2 num den s).2 = (num : ℚ) / den * (2 : ℚ) ^ s := by
  have hden' : (0 : ℚ) < den := by exact_mod_cast hden
  unfold scalePow2
  by_cases h : s ≥ 0
  · obtain ⟨k, rfl⟩ := Int.eq_ofNat_of_zero_le h
    rw [if_pos h]
    refine ⟨hden, ?_⟩
    simp only [Int.toNat_natCast, zpow_natCast]
    push_cast
    ring
  · obtain ⟨k, rfl⟩ : ∃ k : ℕ, s = -(k : ℤ) := ⟨(-s).toNat, by omega⟩
    rw [if_neg h]
    refine ⟨Nat.mul_pos hden (Nat.pow_pos (by decide)), ?_⟩
    simp only [neg_neg, Int.toNat_natCast, zpow_neg, zpow_natCast]
    push_cast
    field_simp

theorem normShift_spec (num den : Nat) (hnum : 0 < num) (hden : 0 < den) :
    (2 : ℚ) ^ 52 ≤ (num : ℚ) / den * (2 : ℚ) ^ (normShift num den) ∧
    (num : ℚ) / den * (2 : ℚ) ^ (normShift num den) < (2 : ℚ) ^ 53 := by
  have hden' : (0 : ℚ) < den := by exact_mod_cast hden
  have hnum' : (0 : ℚ) < num := by exact_mod_cast hnum
  obtain ⟨a, ha⟩ : ∃ a, a = Nat.log2 num := ⟨_, rfl⟩
  obtain ⟨b, hb⟩ : ∃ b, b = Nat.log2 den := ⟨_, rfl⟩
  have ha1 : ((2 : ℚ) ^ a) ≤ num := by
    have := Nat.log2_self_le (Nat.pos_iff_ne_zero.1 hnum); rw [← ha] at this; exact_mod_cast this
  have ha2 : (num : ℚ) < 2 * (2 : ℚ) ^ a := by
    have := @Nat.lt_log2_self num; rw [← ha, Nat.pow_succ] at this
    have h2 : (num : ℚ) < ((2 ^ a * 2 : ℕ) : ℚ) := by exact_mod_cast this
    push_cast at h2; linarith
  have hb1 : ((2 : ℚ) ^ b) ≤ den := by
    have := Nat.log2_self_le (Nat.pos_iff_ne_zero.1 hden); rw [← hb] at this; exact_mod_cast this
  have hb2 : (den : ℚ) < 2 * (2 : ℚ) ^ b := by
    have := @Nat.lt_log2_self den; rw [← hb, Nat.pow_succ] at this
    have h2 : (den : ℚ) < ((2 ^ b * 2 : ℕ) : ℚ) := by exact_mod_cast this
    push_cast at h2; linarith
  have hA : (0 : ℚ) < 2 ^ a := by positivity
  have hB : (0 : ℚ) < 2 ^ b := by positivity
  obtain ⟨s0, hs0⟩ : ∃ s0 : ℤ, s0 = 52 - ((a : ℤ) - (b : ℤ)) := ⟨_, rfl⟩
  have hz : (2 : ℚ) ^ s0 = 2 ^ 52 * 2 ^ b / 2 ^ a := by
    have : s0 = (52 : ℤ) + (b : ℤ) - (a : ℤ) := by omega
    rw [this, zpow_sub₀ (by norm_num), zpow_add₀ (by norm_num), zpow_natCast, zpow_natCast]
    norm_num
  obtain ⟨y0, hy0⟩ : ∃ y0 : ℚ, y0 = (num : ℚ) / den * (2 : ℚ) ^ s0 := ⟨_, rfl⟩
  have hy0' : y0 = (num : ℚ) * (2 ^ 52 * 2 ^ b) / (den * 2 ^ a) := by
    rw [hy0, hz]; field_simp
  have hlo : (2 : ℚ) ^ 51 < y0 := by
    rw [hy0', lt_div_iff₀ (by positivity)]
    have h1 : (den : ℚ) * 2 ^ a < 2 * 2 ^ b * num := by
      calc (den : ℚ) * 2 ^ a < 2 * 2 ^ b * 2 ^ a := by
            exact mul_lt_mul_of_pos_right hb2 hA
        _ ≤ 2 * 2 ^ b * num := by
            exact mul_le_mul_of_nonneg_left ha1 (by positivity)
    nlinarith
  have hhi : y0 < (2 : ℚ) ^ 53 := by
    rw [hy0', div_lt_iff₀ (by positivity)]
    have h1 : (num : ℚ) * 2 ^ b < 2 * 2 ^ a * den := by
      calc (num : ℚ) * 2 ^ b < 2 * 2 ^ a * 2 ^ b := by
            exact mul_lt_mul_of_pos_right ha2 hB
        _ ≤ 2 * 2 ^ a * den := by
            exact mul_le_mul_of_nonneg_left hb1 (by positivity)
    nlinarith
  obtain ⟨hp2, hpv⟩ := scalePow2_spec num den hden s0
  rw [← hy0] at hpv
  have hs : normShift num den =
      if (scalePow2 num den s0).1 / (scalePow2 num den s0).2 ≥ 2 ^ 53 then s0 - 1
      else if (scalePow2 num den s0).1 / (scalePow2 num den s0).2 < 2 ^ 52 then s0 + 1 else s0 := by
    unfold normShift; simp only [← ha, ← hb, ← hs0]
  rw [hs]
  by_cases c1 : (scalePow2 num den s0).1 / (scalePow2 num den s0).2 ≥ 2 ^ 53
  · exfalso
    have := (natdiv_le_iff hp2).1 c1
    rw [hpv] at this; push_cast at this; linarith
  · rw [if_neg c1]
    by_cases c2 : (scalePow2 num den s0).1 / (scalePow2 num den s0).2 < 2 ^ 52
    · rw [if_pos c2]
      have := (natdiv_lt_iff hp2).1 c2
      rw [hpv] at this; push_cast at this
      rw [zpow_add₀ (by norm_num), ← mul_assoc, ← hy0]
      constructor <;> norm_num at * <;> linarith
    · rw [if_neg c2]
      have := (natdiv_le_iff hp2).1 (Nat.le_of_not_lt c2)
      rw [hpv] at this; push_cast at this
      rw [← hy0]
      exact ⟨this, hhi⟩

/-! ### finite non-negative bit patterns as significand × 2^exponent -/

/-- the value of a binary64 bit pattern (`Calc.bitsToRat` of its number) -/
def bitsVal (b : UInt64) : ℚ := bitsToRat b.toNat

/-- integer significand of the pattern numbered `n` -/
def sig (n : Nat) : Nat := if n / 2 ^ 52 = 0 then n % 2 ^ 52 else 2 ^ 52 + n % 2 ^ 52
/-- exponent of the unit in the last place of the pattern numbered `n` -/
def expo (n : Nat) : Int := (max (n / 2 ^ 52) 1 : Nat) - 1075

theorem bitsToRat_fin (n : Nat) (h : n < 2047 * 2 ^ 52) :
    bitsToRat n = (sig n : ℚ) * (2 : ℚ) ^ (expo n) := by
  have h63 : n / 2 ^ 63 % 2 = 0 := by omega
  have he : n / 2 ^ 52 % 2 ^ 11 = n / 2 ^ 52 := by omega
  unfold bitsToRat sig expo
  simp only [h63, he]
  have s1 : (if (0 : ℕ) = 1 then (-1 : ℚ) else 1) = 1 := by norm_num
  rw [s1]
  by_cases h0 : n / 2 ^ 52 = 0
  · have hm : max (n / 2 ^ 52) 1 = 1 := by omega
    rw [if_pos h0, if_pos h0, hm]
    norm_num
  · have hm : max (n / 2 ^ 52) 1 = n / 2 ^ 52 := by omega
    rw [if_neg h0, if_neg h0, hm]
    push_cast
    ring

theorem sig_lt (n : Nat) : sig n < 2 ^ 53 := by
  unfold sig; split <;> omega

theorem expo_ge (n : Nat) : -1074 ≤ expo n := by
  unfold expo; omega

theorem sig_expo_inj (n1 n2 : Nat)
    (hv : (sig n1 : ℚ) * (2 : ℚ) ^ (expo n1) = (sig n2 : ℚ) * (2 : ℚ) ^ (expo n2)) : n1 = n2 := by
  -- no strict inequality between the exponents is possible
  have key : ∀ a b : Nat, expo a < expo b →
      (sig a : ℚ) * (2 : ℚ) ^ (expo a) = (sig b : ℚ) * (2 : ℚ) ^ (expo b) → False := by
    intro a b hlt h
    have hb52 : 2 ^ 52 ≤ sig b := by
      unfold expo at hlt; unfold sig; split <;> omega
    have hb52' : (2 : ℚ) ^ 52 ≤ sig b := by exact_mod_cast hb52
    have ha53 : (sig a : ℚ) < 2 ^ 53 := by exact_mod_cast sig_lt a
    have hsplit : (2 : ℚ) ^ (expo b) = (2 : ℚ) ^ (expo a) * (2 : ℚ) ^ (expo b - expo a) := by
      rw [← zpow_add₀ (by norm_num)]; congr 1; ring
    have hP : (0 : ℚ) < (2 : ℚ) ^ (expo a) := by positivity
    have h2 : (2 : ℚ) ≤ (2 : ℚ) ^ (expo b - expo a) := by
      have := zpow_le_zpow_right₀ (a := (2 : ℚ)) (by norm_num) (show (1 : ℤ) ≤ expo b - expo a by omega)
      simpa using this
    rw [hsplit] at h
    have h3 : (sig a : ℚ) = (sig b : ℚ) * (2 : ℚ) ^ (expo b - expo a) := by
      have : (2 : ℚ) ^ (expo a) * (sig a : ℚ) = (2 : ℚ) ^ (expo a) * ((sig b : ℚ) * (2 : ℚ) ^ (expo b - expo a)) := by
        linarith
      exact mul_left_cancel₀ hP.ne' this
    have : (sig b : ℚ) * 2 ≤ (sig b : ℚ) * (2 : ℚ) ^ (expo b - expo a) :=
      mul_le_mul_of_nonneg_left h2 (by positivity)
    have e53 : (2 : ℚ) ^ 53 = 2 * 2 ^ 52 := by norm_num
    linarith
  rcases lt_trichotomy (expo n1) (expo n2) with h | h | h
  · exact (key n1 n2 h hv).elim
  · rw [h] at hv
    have hP : (0 : ℚ) < (2 : ℚ) ^ (expo n2) := by positivity
    have hs : (sig n1 : ℚ) = sig n2 := mul_right_cancel₀ hP.ne' hv
    have hs' : sig n1 = sig n2 := by exact_mod_cast hs
    unfold expo at h; unfold sig at hs'
    split at hs' <;> split at hs' <;> omega
  · exact (key n2 n1 h hv.symm).elim

/-! ### the nearest-integer argument on a binade's grid -/

theorem int_nearest (q k : ℕ) (y : ℚ) (hq : |(q : ℚ) - y| ≤ 1 / 2) :
    |(q : ℚ) - y| ≤ |(k : ℚ) - y| ∧ (|(k : ℚ) - y| = |(q : ℚ) - y| → k ≠ q → |(q : ℚ) - y| = 1 / 2) := by
  obtain ⟨h1, h2⟩ := abs_le.1 hq
  by_cases hkq : k = q
  · subst hkq; exact ⟨le_refl _, fun _ h => (h rfl).elim⟩
  · have hge : 1 / 2 ≤ |(k : ℚ) - y| := by
      rcases Nat.lt_or_gt_of_ne hkq with h | h
      · have : (k : ℚ) + 1 ≤ q := by exact_mod_cast h
        rw [abs_sub_comm]
        exact le_trans (by linarith) (le_abs_self _)
      · have : (q : ℚ) + 1 ≤ k := by exact_mod_cast h
        exact le_trans (by linarith) (le_abs_self _)
    exact ⟨le_trans hq hge, fun he _ => le_antisymm hq (he ▸ hge)⟩

theorem grid_nearest (x : ℚ) (ex : ℤ) (q : ℕ)
    (hq : |(q : ℚ) - x / (2 : ℚ) ^ ex| ≤ 1 / 2)
    (hbig : ex = -1074 ∨ ((2 : ℚ) ^ 52 ≤ x / (2 : ℚ) ^ ex))
    (F : ℕ) (ex' : ℤ) (hF : F < 2 ^ 53) (hex' : -1074 ≤ ex') :
    |(q : ℚ) * (2 : ℚ) ^ ex - x| ≤ |(F : ℚ) * (2 : ℚ) ^ ex' - x| ∧
    (|(F : ℚ) * (2 : ℚ) ^ ex' - x| = |(q : ℚ) * (2 : ℚ) ^ ex - x| →
      (F : ℚ) * (2 : ℚ) ^ ex' ≠ (q : ℚ) * (2 : ℚ) ^ ex → |(q : ℚ) - x / (2 : ℚ) ^ ex| = 1 / 2) := by
  have hP : (0 : ℚ) < (2 : ℚ) ^ ex := by positivity
  obtain ⟨y, hy⟩ : ∃ y : ℚ, y = x / (2 : ℚ) ^ ex := ⟨_, rfl⟩
  have hx : x = y * (2 : ℚ) ^ ex := by rw [hy]; field_simp
  rw [← hy] at hq hbig ⊢
  obtain ⟨t, ht⟩ : ∃ t : ℚ, t = (F : ℚ) * (2 : ℚ) ^ (ex' - ex) := ⟨_, rfl⟩
  have hv' : (F : ℚ) * (2 : ℚ) ^ ex' = t * (2 : ℚ) ^ ex := by
    rw [ht, mul_assoc, ← zpow_add₀ (by norm_num)]; congr 2; ring
  have e1 : |(q : ℚ) * (2 : ℚ) ^ ex - x| = |(q : ℚ) - y| * (2 : ℚ) ^ ex := by
    rw [hx, ← sub_mul, abs_mul, abs_of_pos hP]
  have e2 : |(F : ℚ) * (2 : ℚ) ^ ex' - x| = |t - y| * (2 : ℚ) ^ ex := by
    rw [hv', hx, ← sub_mul, abs_mul, abs_of_pos hP]
  rw [e1, e2, hv']
  suffices h : |(q : ℚ) - y| ≤ |t - y| ∧ (|t - y| = |(q : ℚ) - y| → t ≠ q → |(q : ℚ) - y| = 1 / 2) by
    refine ⟨mul_le_mul_of_nonneg_right h.1 hP.le, fun he hne => h.2 ?_ ?_⟩
    · exact mul_right_cancel₀ hP.ne' he
    · intro h'; exact hne (by rw [h'])
  by_cases hle : ex ≤ ex'
  · -- an integer multiple of the grid step
    obtain ⟨j, hj⟩ : ∃ j : ℕ, ex' - ex = (j : ℤ) := ⟨(ex' - ex).toNat, by omega⟩
    have htk : t = ((F * 2 ^ j : ℕ) : ℚ) := by rw [ht, hj, zpow_natCast]; push_cast; ring
    rw [htk]
    obtain ⟨a, b⟩ := int_nearest q (F * 2 ^ j) y hq
    exact ⟨a, fun he hne => b he (by intro h; exact hne (by rw [h]))⟩
  · -- below the binade
    have hbig' : (2 : ℚ) ^ 52 ≤ y := by
      rcases hbig with h | h
      · omega
      · exact h
    have htl : t < (2 : ℚ) ^ 52 := by
      have hh : (2 : ℚ) ^ (ex' - ex) ≤ (2 : ℚ) ^ (-1 : ℤ) :=
        zpow_le_zpow_right₀ (by norm_num) (by omega)
      have hF' : (F : ℚ) < 2 ^ 53 := by exact_mod_cast hF
      have : (F : ℚ) * (2 : ℚ) ^ (ex' - ex) ≤ (F : ℚ) * (2 : ℚ) ^ (-1 : ℤ) :=
        mul_le_mul_of_nonneg_left hh (by positivity)
      have e53 : (2 : ℚ) ^ 53 = 2 * 2 ^ 52 := by norm_num
      have ehalf : (2 : ℚ) ^ (-1 : ℤ) = 1 / 2 := by norm_num
      rw [ht]
      rw [ehalf] at this
      linarith
    obtain ⟨a, _⟩ := int_nearest q (2 ^ 52) y hq
    rw [Nat.cast_pow, Nat.cast_ofNat] at a
    have a' : |(2 : ℚ) ^ 52 - y| = y - 2 ^ 52 := by
      rw [abs_sub_comm]; exact abs_of_nonneg (by linarith)
    have b' : |t - y| = y - t := by
      rw [abs_sub_comm]; exact abs_of_nonneg (by linarith)
    rw [a'] at a
    rw [b']
    exact ⟨by linarith, fun he => by linarith⟩

theorem inf_toNat : (0x7FF0000000000000 : UInt64).toNat = 2047 * 2 ^ 52 := by decide

theorem toUInt64_toNat (n : Nat) (h : n < 2 ^ 64) : n.toUInt64.toNat = n := by
  simp only [Nat.toUInt64, UInt64.toNat_ofNat']; omega

theorem sig_expo_pack (k f : Nat) (hk : 1 ≤ k) (hf : f < 2 ^ 52) :
    sig (k * 2 ^ 52 + f) = 2 ^ 52 + f ∧ expo (k * 2 ^ 52 + f) = (k : ℤ) - 1075 := by
  have h1 : (k * 2 ^ 52 + f) / 2 ^ 52 = k := by omega
  have h2 : (k * 2 ^ 52 + f) % 2 ^ 52 = f := by omega
  unfold sig expo
  rw [h1, h2]
  constructor
  · rw [if_neg (by omega)]
  · have : max k 1 = k := by omega
    rw [this]

theorem packNormal_fin (q k : Nat) (hq1 : 2 ^ 52 ≤ q) (hq2 : q ≤ 2 ^ 53) (hk : 1 ≤ k)
    (hfin : ¬ (2047 ≤ k ∨ (k = 2046 ∧ q = 2 ^ 53))) :
    (packNormal q (k : ℤ)).toNat < 2047 * 2 ^ 52 ∧
    (sig (packNormal q (k : ℤ)).toNat : ℚ) * (2 : ℚ) ^ (expo (packNormal q (k : ℤ)).toNat)
      = (q : ℚ) * (2 : ℚ) ^ ((k : ℤ) - 1075) ∧
    (q % 2 = 0 → (packNormal q (k : ℤ)).toNat % 2 = 0) := by
  unfold packNormal
  simp only []
  by_cases hq : q ≥ 2 ^ 53
  · have hq' : q = 2 ^ 53 := by omega
    have hk' : k ≤ 2045 := by omega
    rw [if_pos hq, if_pos hq, if_neg (by omega)]
    have e1 : ((k : ℤ) + 1).toNat = k + 1 := by omega
    rw [e1, Nat.shiftLeft_eq, hq']
    have e2 : (2 ^ 53 / 2 - 2 ^ 52 : ℕ) = 0 := by norm_num
    rw [e2, toUInt64_toNat _ (by omega)]
    obtain ⟨a, b⟩ := sig_expo_pack (k + 1) 0 (by omega) (by norm_num)
    refine ⟨by omega, ?_, fun _ => by omega⟩
    rw [a, b]
    push_cast
    have : ((k : ℤ) + 1 - 1075) = ((k : ℤ) - 1075) + 1 := by ring
    rw [this, zpow_add₀ (by norm_num)]
    norm_num
    ring
  · have hk' : k ≤ 2046 := by omega
    rw [if_neg hq, if_neg hq, if_neg (by omega)]
    have e1 : ((k : ℤ)).toNat = k := by omega
    rw [e1, Nat.shiftLeft_eq, toUInt64_toNat _ (by omega)]
    obtain ⟨a, b⟩ := sig_expo_pack k (q - 2 ^ 52) hk (by omega)
    refine ⟨by omega, ?_, fun _ => by omega⟩
    rw [a, b]
    have : 2 ^ 52 + (q - 2 ^ 52) = q := by omega
    rw [this]

theorem packNormal_inf_iff (q k : Nat) (hq1 : 2 ^ 52 ≤ q) (hq2 : q ≤ 2 ^ 53) (hk : 1 ≤ k) :
    packNormal q (k : ℤ) = 0x7FF0000000000000 ↔ (2047 ≤ k ∨ (k = 2046 ∧ q = 2 ^ 53)) := by
  constructor
  · intro h
    by_contra hfin
    have := (packNormal_fin q k hq1 hq2 hk hfin).1
    rw [h, inf_toNat] at this
    omega
  · intro h
    unfold packNormal
    simp only []
    by_cases hq : q ≥ 2 ^ 53
    · rw [if_pos hq, if_pos (by omega)]
    · rw [if_neg hq, if_pos (by omega)]

/-! ### the rounding specification -/

/-- `b` is the round-to-nearest, ties-to-even binary64 of the non-negative rational `x`
    (overflowing to `+inf` from `2^1024 − 2^970` on) -/
structure IsRN (x : ℚ) (b : UInt64) : Prop where
  le_inf : b ≤ 0x7FF0000000000000
  inf_iff : b = 0x7FF0000000000000 ↔ (2 : ℚ) ^ 1024 - 2 ^ 970 ≤ x
  nearest : b < 0x7FF0000000000000 → ∀ b' : UInt64, b' < 0x7FF0000000000000 →
    |bitsVal b - x| ≤ |bitsVal b' - x|
  ties : b < 0x7FF0000000000000 → ∀ b' : UInt64, b' < 0x7FF0000000000000 → b' ≠ b →
    |bitsVal b' - x| = |bitsVal b - x| → b.toNat % 2 = 0

theorem isRN_inf (x : ℚ) (hx : (2 : ℚ) ^ 1024 - 2 ^ 970 ≤ x) : IsRN x 0x7FF0000000000000 where
  le_inf := UInt64.le_iff_toNat_le.2 (Nat.le_refl _)
  inf_iff := ⟨fun _ => hx, fun _ => rfl⟩
  nearest h := absurd h (by decide)
  ties h := absurd h (by decide)

theorem isRN_of_grid (x y : ℚ) (b : UInt64) (ex : ℤ) (q : ℕ)
    (hb : b.toNat < 2047 * 2 ^ 52)
    (hval : (sig b.toNat : ℚ) * (2 : ℚ) ^ (expo b.toNat) = (q : ℚ) * (2 : ℚ) ^ ex)
    (hpar : q % 2 = 0 → b.toNat % 2 = 0)
    (hxy : x = y * (2 : ℚ) ^ ex)
    (hq : |(q : ℚ) - y| ≤ 1 / 2)
    (htie : |(q : ℚ) - y| = 1 / 2 → q % 2 = 0)
    (hbig : ex = -1074 ∨ (2 : ℚ) ^ 52 ≤ y)
    (hx : x < (2 : ℚ) ^ 1024 - 2 ^ 970) : IsRN x b := by
  have hP : (0 : ℚ) < (2 : ℚ) ^ ex := by positivity
  have hy : x / (2 : ℚ) ^ ex = y := by rw [hxy]; field_simp
  have hblt : b < 0x7FF0000000000000 := by
    rw [UInt64.lt_iff_toNat_lt, inf_toNat]; exact hb
  have hbv : bitsVal b = (q : ℚ) * (2 : ℚ) ^ ex := by
    unfold bitsVal; rw [bitsToRat_fin _ hb, hval]
  have main : ∀ b' : UInt64, b' < 0x7FF0000000000000 →
      |bitsVal b - x| ≤ |bitsVal b' - x| ∧
      (b' ≠ b → |bitsVal b' - x| = |bitsVal b - x| → b.toNat % 2 = 0) := by
    intro b' hb'
    have hb'n : b'.toNat < 2047 * 2 ^ 52 := by
      rw [UInt64.lt_iff_toNat_lt, inf_toNat] at hb'; exact hb'
    have hb'v : bitsVal b' = (sig b'.toNat : ℚ) * (2 : ℚ) ^ (expo b'.toNat) := by
      unfold bitsVal; rw [bitsToRat_fin _ hb'n]
    obtain ⟨g1, g2⟩ := grid_nearest x ex q (by rw [hy]; exact hq) (by rw [hy]; exact hbig)
      (sig b'.toNat) (expo b'.toNat) (sig_lt _) (expo_ge _)
    rw [hbv, hb'v]
    refine ⟨g1, fun hne he => hpar (htie ?_)⟩
    rw [← hy]
    refine g2 he ?_
    intro hv
    apply hne
    rw [← hval] at hv
    exact UInt64.toNat_inj.1 (sig_expo_inj _ _ hv)
  exact
    { le_inf := by rw [UInt64.le_iff_toNat_le, inf_toNat]; omega
      inf_iff := ⟨fun h => by rw [h, inf_toNat] at hb; omega, fun h => absurd h (not_le.2 hx)⟩
      nearest := fun _ b' hb' => (main b' hb').1
      ties := fun _ b' hb' hne he => (main b' hb').2 hne he }

theorem sig_expo_small (q : Nat) (hq : q ≤ 2 ^ 52) : sig q = q ∧ expo q = -1074 := by
  unfold sig expo
  constructor
  · split <;> omega
  · omega

/-! ### `ratToBits` rounds correctly -/

set_option exponentiation.threshold 2100

theorem nat_le_of_cast_lt_add_one {q K : ℕ} (h : (q : ℚ) < (K : ℚ) + 1) : q ≤ K := by
  have : q < K + 1 := by exact_mod_cast h
  omega

theorem roundScaled_spec (num den : Nat) (hden : 0 < den) (s : Int) :
    |(roundScaled num den s : ℚ) - (num : ℚ) / den * (2 : ℚ) ^ s| ≤ 1 / 2 ∧
    (|(roundScaled num den s : ℚ) - (num : ℚ) / den * (2 : ℚ) ^ s| = 1 / 2 →
      roundScaled num den s % 2 = 0) := by
  obtain ⟨h1, h2⟩ := scalePow2_spec num den hden s
  have := divRoundEven_spec (scalePow2 num den s).1 (scalePow2 num den s).2 h1
  rw [h2] at this
  exact this

theorem ratToBits_isRN (num den : Nat) (hnum : 0 < num) (hden : 0 < den) :
    IsRN ((num : ℚ) / den) (ratToBits num den) := by
  obtain ⟨x, hx⟩ : ∃ x : ℚ, x = (num : ℚ) / den := ⟨_, rfl⟩
  obtain ⟨s, hs⟩ : ∃ s : ℤ, s = normShift num den := ⟨_, rfl⟩
  obtain ⟨hlo, hhi⟩ := normShift_spec num den hnum hden
  rw [← hx, ← hs] at hlo hhi
  rw [← hx]
  have hxpos : 0 < x := by rw [hx]; positivity
  have e53 : (2 : ℚ) ^ 53 = 2 * 2 ^ 52 := by norm_num
  -- x < 2^53 · 2^(-s)
  have hxlt : x < 2 ^ 53 * (2 : ℚ) ^ (-s) := by
    have hP : (0 : ℚ) < (2 : ℚ) ^ (-s) := by positivity
    have := mul_lt_mul_of_pos_right hhi hP
    rwa [mul_assoc, ← zpow_add₀ (by norm_num), add_neg_cancel, zpow_zero, mul_one] at this
  have hxge : 2 ^ 52 * (2 : ℚ) ^ (-s) ≤ x := by
    have hP : (0 : ℚ) < (2 : ℚ) ^ (-s) := by positivity
    have := mul_le_mul_of_nonneg_right hlo hP.le
    rwa [mul_assoc, ← zpow_add₀ (by norm_num), add_neg_cancel, zpow_zero, mul_one] at this
  have hdef : ratToBits num den =
      if 52 - s + 1023 ≤ 0 then (roundScaled num den 1074).toUInt64
      else packNormal (roundScaled num den s) (52 - s + 1023) := by
    unfold ratToBits; simp only [← hs]
  rw [hdef]
  by_cases hbe : 52 - s + 1023 ≤ 0
  · -- subnormal range
    rw [if_pos hbe]
    obtain ⟨r1, r2⟩ := roundScaled_spec num den hden 1074
    rw [← hx] at r1 r2
    obtain ⟨q, hq⟩ : ∃ q, q = roundScaled num den 1074 := ⟨_, rfl⟩
    rw [← hq] at r1 r2 ⊢
    have hy : x * (2 : ℚ) ^ (1074 : ℤ) ≤ 2 ^ 52 := by
      have h1 : (2 : ℚ) ^ (-s) ≤ (2 : ℚ) ^ (-1075 : ℤ) := zpow_le_zpow_right₀ (by norm_num) (by omega)
      have h2 : x ≤ 2 ^ 53 * (2 : ℚ) ^ (-1075 : ℤ) :=
        le_trans hxlt.le (mul_le_mul_of_nonneg_left h1 (by positivity))
      have hP : (0 : ℚ) < (2 : ℚ) ^ (1074 : ℤ) := by positivity
      have := mul_le_mul_of_nonneg_right h2 hP.le
      rw [mul_assoc, ← zpow_add₀ (by norm_num)] at this
      have e : (2 : ℚ) ^ ((-1075 : ℤ) + 1074) = 1 / 2 := by norm_num
      rw [e] at this
      linarith
    have hq52 : q ≤ 2 ^ 52 := by
      apply nat_le_of_cast_lt_add_one
      have := (abs_le.1 r1).2
      push_cast
      linarith
    obtain ⟨a, b⟩ := sig_expo_small q hq52
    have hbn : q.toUInt64.toNat = q := toUInt64_toNat q (by omega)
    refine isRN_of_grid x (x * (2 : ℚ) ^ (1074 : ℤ)) q.toUInt64 (-1074) q ?_ ?_ ?_ ?_ r1 r2 (Or.inl rfl) ?_
    · rw [hbn]; omega
    · rw [hbn, a, b]
    · rw [hbn]; exact id
    · rw [mul_assoc, ← zpow_add₀ (by norm_num)]; norm_num
    · have h1 : (2 : ℚ) ^ (-s) ≤ (2 : ℚ) ^ (0 : ℤ) := zpow_le_zpow_right₀ (by norm_num) (by omega)
      have h2 : x < 2 ^ 53 * (2 : ℚ) ^ (0 : ℤ) :=
        lt_of_lt_of_le hxlt (mul_le_mul_of_nonneg_left h1 (by positivity))
      have h3 : (2 : ℚ) ^ 53 * (2 : ℚ) ^ (0 : ℤ) < (2 : ℚ) ^ 1024 - 2 ^ 970 := by norm_num
      linarith
  · -- normal range
    rw [if_neg hbe]
    obtain ⟨k, hk⟩ : ∃ k : ℕ, (k : ℤ) = 52 - s + 1023 := ⟨(52 - s + 1023).toNat, by omega⟩
    have hk1 : 1 ≤ k := by omega
    have hsk : -s = (k : ℤ) - 1075 := by omega
    rw [← hk]
    obtain ⟨r1, r2⟩ := roundScaled_spec num den hden s
    rw [← hx] at r1 r2
    obtain ⟨q, hq⟩ : ∃ q, q = roundScaled num den s := ⟨_, rfl⟩
    rw [← hq] at r1 r2 ⊢
    obtain ⟨r1a, r1b⟩ := abs_le.1 r1
    have hq1 : 2 ^ 52 ≤ q := by
      have : (2 ^ 52 : ℕ) ≤ q + 1 - 1 + 0 := by
        have h : ((2 ^ 52 : ℕ) : ℚ) < (q : ℚ) + 1 := by push_cast; linarith
        have := nat_le_of_cast_lt_add_one h
        omega
      omega
    have hq2 : q ≤ 2 ^ 53 := by
      apply nat_le_of_cast_lt_add_one
      push_cast
      linarith
    have hxy : x = x * (2 : ℚ) ^ s * (2 : ℚ) ^ ((k : ℤ) - 1075) := by
      rw [← hsk, mul_assoc, ← zpow_add₀ (by norm_num), add_neg_cancel, zpow_zero, mul_one]
    by_cases hinf : 2047 ≤ k ∨ (k = 2046 ∧ q = 2 ^ 53)
    · rw [(packNormal_inf_iff q k hq1 hq2 hk1).2 hinf]
      apply isRN_inf
      rcases hinf with h | ⟨h1, h2⟩
      · have h1 : (2 : ℚ) ^ (972 : ℤ) ≤ (2 : ℚ) ^ (-s) := zpow_le_zpow_right₀ (by norm_num) (by omega)
        have h2 : (2 : ℚ) ^ 52 * (2 : ℚ) ^ (972 : ℤ) ≤ x :=
          le_trans (mul_le_mul_of_nonneg_left h1 (by positivity)) hxge
        have h3 : (2 : ℚ) ^ 1024 - 2 ^ 970 ≤ (2 : ℚ) ^ 52 * (2 : ℚ) ^ (972 : ℤ) := by norm_num
        linarith
      · have hy : (2 : ℚ) ^ 53 - 1 / 2 ≤ x * (2 : ℚ) ^ s := by
          rw [h2] at r1b; push_cast at r1b; linarith
        rw [hxy, h1]
        have hP : (0 : ℚ) < (2 : ℚ) ^ (((2046 : ℕ) : ℤ) - 1075) := by positivity
        have := mul_le_mul_of_nonneg_right hy hP.le
        refine le_trans (le_of_eq ?_) this
        norm_num
    · obtain ⟨p1, p2, p3⟩ := packNormal_fin q k hq1 hq2 hk1 hinf
      refine isRN_of_grid x (x * (2 : ℚ) ^ s) _ ((k : ℤ) - 1075) q p1 p2 p3 hxy r1 r2 (Or.inr hlo) ?_
      by_cases hk2 : k ≤ 2045
      · have h1 : (2 : ℚ) ^ (-s) ≤ (2 : ℚ) ^ (970 : ℤ) := zpow_le_zpow_right₀ (by norm_num) (by omega)
        have h2 : x < 2 ^ 53 * (2 : ℚ) ^ (970 : ℤ) :=
          lt_of_lt_of_le hxlt (mul_le_mul_of_nonneg_left h1 (by positivity))
        have h3 : (2 : ℚ) ^ 53 * (2 : ℚ) ^ (970 : ℤ) < (2 : ℚ) ^ 1024 - 2 ^ 970 := by norm_num
        linarith
      · have hk3 : k = 2046 := by omega
        have hq3 : q ≤ 2 ^ 53 - 1 := by omega
        have hq3' : (q : ℚ) ≤ 2 ^ 53 - 1 := by
          have : (q : ℚ) ≤ ((2 ^ 53 - 1 : ℕ) : ℚ) := by exact_mod_cast hq3
          refine le_trans this (le_of_eq ?_); norm_num
        have hy : x * (2 : ℚ) ^ s < (2 : ℚ) ^ 53 - 1 / 2 := by
          by_contra hcon
          have hcon := not_lt.1 hcon
          have hqe : (q : ℚ) = 2 ^ 53 - 1 := by linarith
          have hye : x * (2 : ℚ) ^ s = 2 ^ 53 - 1 / 2 := by linarith
          have habs : |(q : ℚ) - x * (2 : ℚ) ^ s| = 1 / 2 := by
            rw [hqe, hye]; norm_num
          have hev := r2 habs
          have hqn : q = 2 ^ 53 - 1 := by
            have : (q : ℚ) = ((2 ^ 53 - 1 : ℕ) : ℚ) := by rw [hqe]; norm_num
            exact_mod_cast this
          omega
        rw [hxy, hk3]
        have hP : (0 : ℚ) < (2 : ℚ) ^ (((2046 : ℕ) : ℤ) - 1075) := by positivity
        have := mul_lt_mul_of_pos_right hy hP
        refine lt_of_lt_of_le this (le_of_eq ?_)
        norm_num

/-! ### decimal digit count -/

theorem toDigits_len_bounds : ∀ m : Nat, 0 < m →
    10 ^ ((Nat.toDigits 10 m).length - 1) ≤ m ∧ m < 10 ^ (Nat.toDigits 10 m).length := by
  intro m
  induction m using Nat.strongRecOn with
  | _ m ih =>
    intro hm
    rw [Nat.toDigits_eq_if (by decide)]
    split
    · simp; omega
    · obtain ⟨a, b⟩ := ih (m / 10) (by omega) (by omega)
      simp only [List.length_append, List.length_singleton]
      obtain ⟨L, hL⟩ : ∃ L, L = (Nat.toDigits 10 (m / 10)).length := ⟨_, rfl⟩
      rw [← hL] at a b ⊢
      have hL1 : 1 ≤ L := by
        rcases Nat.eq_zero_or_pos L with h | h
        · rw [h] at b; simp at b; omega
        · exact h
      obtain ⟨j, rfl⟩ : ∃ j, L = j + 1 := ⟨L - 1, by omega⟩
      simp only [Nat.add_sub_cancel, Nat.pow_succ] at a b ⊢
      constructor <;> omega

/-! ### the decimal reader -/


/-- the rational `m · 10^e` -/
def decVal (m : Nat) (e : Int) : ℚ := (m : ℚ) * (10 : ℚ) ^ e

theorem isRN_small (x : ℚ) (h0 : 0 ≤ x) (hx : x ≤ (2 : ℚ) ^ (-1075 : ℤ)) : IsRN x 0 := by
  have hy : x * (2 : ℚ) ^ (1074 : ℤ) ≤ 1 / 2 := by
    have hP : (0 : ℚ) < (2 : ℚ) ^ (1074 : ℤ) := by positivity
    have := mul_le_mul_of_nonneg_right hx hP.le
    rw [← zpow_add₀ (by norm_num)] at this
    have e : (2 : ℚ) ^ ((-1075 : ℤ) + 1074) = 1 / 2 := by norm_num
    rwa [e] at this
  have hy0 : 0 ≤ x * (2 : ℚ) ^ (1074 : ℤ) := by positivity
  have habs : |((0 : ℕ) : ℚ) - x * (2 : ℚ) ^ (1074 : ℤ)| ≤ 1 / 2 := by
    rw [Nat.cast_zero, zero_sub, abs_neg, abs_of_nonneg hy0]; exact hy
  refine isRN_of_grid x (x * (2 : ℚ) ^ (1074 : ℤ)) 0 (-1074) 0 (by decide) ?_ (fun _ => by decide) ?_
    habs (fun _ => rfl) (Or.inl rfl) ?_
  · have : (0 : UInt64).toNat = 0 := rfl
    rw [this]
    obtain ⟨a, b⟩ := sig_expo_small 0 (by omega)
    rw [a, b]
  · rw [mul_assoc, ← zpow_add₀ (by norm_num)]; norm_num
  · have h1 : (2 : ℚ) ^ (-1075 : ℤ) ≤ 1 := by
      have := zpow_le_zpow_right₀ (a := (2 : ℚ)) (by norm_num) (show (-1075 : ℤ) ≤ 0 by norm_num)
      simpa using this
    have h2 : (1 : ℚ) < (2 : ℚ) ^ 1024 - 2 ^ 970 := by norm_num
    linarith

theorem decimalToBits_isRN (m : Nat) (e : Int) : IsRN (decVal m e) (decimalToBits m e) := by
  unfold decimalToBits decVal
  by_cases hm : m = 0
  · rw [if_pos hm, hm]
    apply isRN_small <;> simp
  rw [if_neg hm]
  simp only []
  have hmpos : 0 < m := Nat.pos_of_ne_zero hm
  obtain ⟨d1, d2⟩ := toDigits_len_bounds m hmpos
  have hnd : decDigits m = (Nat.toDigits 10 m).length := by unfold decDigits; rw [if_neg hm]
  obtain ⟨L, hL⟩ : ∃ L, L = (Nat.toDigits 10 m).length := ⟨_, rfl⟩
  rw [hnd, ← hL]
  rw [← hL] at d1 d2
  have d1' : (10 : ℚ) ^ (((L - 1 : ℕ) : ℤ)) ≤ m := by rw [zpow_natCast]; exact_mod_cast d1
  have d2' : (m : ℚ) < (10 : ℚ) ^ ((L : ℕ) : ℤ) := by rw [zpow_natCast]; exact_mod_cast d2
  have hL1 : 1 ≤ L := by
    rcases Nat.eq_zero_or_pos L with h | h
    · rw [h] at d2; simp at d2; omega
    · exact h
  have hE : (0 : ℚ) < (10 : ℚ) ^ e := by positivity
  by_cases c1 : (L : ℤ) + e > 310
  · rw [if_pos c1]
    apply isRN_inf
    have h1 : (10 : ℚ) ^ (((L - 1 : ℕ) : ℤ)) * (10 : ℚ) ^ e ≤ (m : ℚ) * (10 : ℚ) ^ e :=
      mul_le_mul_of_nonneg_right d1' hE.le
    rw [← zpow_add₀ (by norm_num)] at h1
    have h2 : (10 : ℚ) ^ (310 : ℤ) ≤ (10 : ℚ) ^ (((L - 1 : ℕ) : ℤ) + e) :=
      zpow_le_zpow_right₀ (by norm_num) (by omega)
    have h3 : (2 : ℚ) ^ 1024 - 2 ^ 970 ≤ (10 : ℚ) ^ (310 : ℤ) := by norm_num
    linarith
  rw [if_neg c1]
  by_cases c2 : (L : ℤ) + e < -330
  · rw [if_pos c2]
    apply isRN_small
    · positivity
    · have h1 : (m : ℚ) * (10 : ℚ) ^ e ≤ (10 : ℚ) ^ ((L : ℕ) : ℤ) * (10 : ℚ) ^ e :=
        mul_le_mul_of_nonneg_right d2'.le hE.le
      rw [← zpow_add₀ (by norm_num)] at h1
      have h2 : (10 : ℚ) ^ ((L : ℤ) + e) ≤ (10 : ℚ) ^ (-331 : ℤ) :=
        zpow_le_zpow_right₀ (by norm_num) (by omega)
      have h3 : (10 : ℚ) ^ (-331 : ℤ) ≤ (2 : ℚ) ^ (-1075 : ℤ) := by norm_num
      linarith
  rw [if_neg c2]
  by_cases he : e ≥ 0
  · obtain ⟨k, rfl⟩ := Int.eq_ofNat_of_zero_le he
    rw [if_pos he, if_pos he]
    have := ratToBits_isRN (m * pow10 (k : ℤ).toNat) 1
      (Nat.mul_pos hmpos (by unfold pow10; exact Nat.pow_pos (by decide))) (by decide)
    convert this using 1
    unfold pow10
    simp [zpow_natCast]
  · obtain ⟨k, rfl⟩ : ∃ k : ℕ, e = -(k : ℤ) := ⟨(-e).toNat, by omega⟩
    rw [if_neg he, if_neg he]
    have := ratToBits_isRN m (pow10 (-(-(k : ℤ))).toNat) hmpos
      (by unfold pow10; exact Nat.pow_pos (by decide))
    convert this using 1
    unfold pow10
    simp [zpow_neg, zpow_natCast, div_eq_mul_inv]

/-! ### the five statements -/

/-- (a) the result is a non-negative, non-NaN pattern -/
theorem decimalToBits_nonneg (m : Nat) (e : Int) : decimalToBits m e ≤ 0x7FF0000000000000 :=
  (decimalToBits_isRN m e).le_inf

/-- (b) a finite result is a nearest finite binary64 to `m · 10^e` -/
theorem decimalToBits_nearest (m : Nat) (e : Int) (hfin : decimalToBits m e < 0x7FF0000000000000)
    (b' : UInt64) (hb' : b' < 0x7FF0000000000000) :
    |bitsVal (decimalToBits m e) - decVal m e| ≤ |bitsVal b' - decVal m e| :=
  (decimalToBits_isRN m e).nearest hfin b' hb'

/-- (b) when another finite binary64 is equally near, the result's significand is even -/
theorem decimalToBits_ties_even (m : Nat) (e : Int) (hfin : decimalToBits m e < 0x7FF0000000000000)
    (b' : UInt64) (hb' : b' < 0x7FF0000000000000) (hne : b' ≠ decimalToBits m e)
    (heq : |bitsVal b' - decVal m e| = |bitsVal (decimalToBits m e) - decVal m e|) :
    (decimalToBits m e).toNat % 2 = 0 :=
  (decimalToBits_isRN m e).ties hfin b' hb' hne heq

/-- (c) the result is `+inf` exactly from the round-to-nearest overflow threshold on -/
theorem decimalToBits_inf_iff (m : Nat) (e : Int) :
    decimalToBits m e = 0x7FF0000000000000 ↔ (2 : ℚ) ^ 1024 - 2 ^ 970 ≤ decVal m e :=
  (decimalToBits_isRN m e).inf_iff

/-- (d) a zero digit string reads as `+0` -/
theorem decimalToBits_zero (e : Int) : decimalToBits 0 e = 0 := by
  unfold decimalToBits; rw [if_pos rfl]

/-- on finite non-negative patterns `bitsVal` is one-to-one -/
theorem bitsVal_injective (b b' : UInt64) (hb : b < 0x7FF0000000000000) (hb' : b' < 0x7FF0000000000000)
    (h : bitsVal b = bitsVal b') : b = b' := by
  rw [UInt64.lt_iff_toNat_lt, inf_toNat] at hb hb'
  unfold bitsVal at h
  rw [bitsToRat_fin _ hb, bitsToRat_fin _ hb'] at h
  exact UInt64.toNat_inj.1 (sig_expo_inj _ _ h)

/-- `bitsVal` written with the exponent field `E` and fraction field `F` -/
theorem bitsVal_eq (b : UInt64) (hb : b < 0x7FF0000000000000) :
    bitsVal b = ((if b.toNat / 2 ^ 52 = 0 then b.toNat % 2 ^ 52 else 2 ^ 52 + b.toNat % 2 ^ 52 : ℕ) : ℚ)
      * (2 : ℚ) ^ (((max (b.toNat / 2 ^ 52) 1 : ℕ) : ℤ) - 1075) := by
  rw [UInt64.lt_iff_toNat_lt, inf_toNat] at hb
  unfold bitsVal
  rw [bitsToRat_fin _ hb]
  rfl

/-- the early exit on a large decimal exponent is an overflow -/
theorem early_exit_large (m : Nat) (e : Int) (hm : m ≠ 0) (h : (decDigits m : ℤ) + e > 310) :
    (2 : ℚ) ^ 1024 - 2 ^ 970 ≤ decVal m e := by
  have := decimalToBits_inf_iff m e
  unfold decimalToBits at this
  rw [if_neg hm] at this
  simp only [] at this
  rw [if_pos h] at this
  exact this.1 rfl

/-- the early exit on a small decimal exponent is below half the smallest subnormal, so `+0` is nearest -/
theorem early_exit_small (m : Nat) (e : Int) (hm : m ≠ 0) (h : (decDigits m : ℤ) + e < -330) :
    decVal m e < (2 : ℚ) ^ (-1075 : ℤ) := by
  have hmpos : 0 < m := Nat.pos_of_ne_zero hm
  obtain ⟨_, d2⟩ := toDigits_len_bounds m hmpos
  have hnd : decDigits m = (Nat.toDigits 10 m).length := by unfold decDigits; rw [if_neg hm]
  rw [hnd] at h
  have d2' : (m : ℚ) < (10 : ℚ) ^ (((Nat.toDigits 10 m).length : ℕ) : ℤ) := by
    rw [zpow_natCast]; exact_mod_cast d2
  have hE : (0 : ℚ) < (10 : ℚ) ^ e := by positivity
  unfold decVal
  have h1 := mul_lt_mul_of_pos_right d2' hE
  rw [← zpow_add₀ (by norm_num)] at h1
  have h2 : (10 : ℚ) ^ ((((Nat.toDigits 10 m).length : ℕ) : ℤ) + e) ≤ (10 : ℚ) ^ (-331 : ℤ) :=
    zpow_le_zpow_right₀ (by norm_num) (by omega)
  have h3 : (10 : ℚ) ^ (-331 : ℤ) ≤ (2 : ℚ) ^ (-1075 : ℤ) := by norm_num
  linarith

end Calc.Proofs.DecimalRound
