/-
  Calc.Proofs.WfParse — the trees the parser returns (`Expr.WF`, Calc/Proofs/ParseWF.lean) are
  trees the evaluator accepts (`Expr.EvalWF`, Calc/Proofs/WfDefs.lean): the bridge between the
  parser half and the evaluator half of C01.
-/
import Calc.Proofs.ParseWF
import Calc.Proofs.WfDefs
namespace Calc
variable {S : Type}

theorem isBinaryOp_eq_binTag (t : Tag) : isBinaryOp t = binTag t := by
  cases t <;> rfl

mutual
theorem Expr.WF.evalWF : ∀ (e : Expr S), e.WF → e.EvalWF
  | .as_ e _ _, h => by
    simp only [Expr.WF] at h
    simp only [Expr.EvalWF]
    exact Expr.WF.evalWF e h.2
  | .binary l op r, h => by
    simp only [Expr.WF] at h
    simp only [Expr.EvalWF]
    exact ⟨by rw [← isBinaryOp_eq_binTag]; exact h.1, Expr.WF.evalWF l h.2.1,
      Expr.WF.evalWF r h.2.2⟩
  | .unary op x, h => by
    simp only [Expr.WF] at h
    simp only [Expr.EvalWF]
    refine ⟨?_, Expr.WF.evalWF x h.2⟩
    rcases h.1 with h1 | h1 | h1 <;> rw [h1] <;> rfl
  | .grouping _ _ e, h => by
    simp only [Expr.WF] at h
    simp only [Expr.EvalWF]
    exact Expr.WF.evalWF e h.2
  | .number _, _ => by simp only [Expr.EvalWF]
  | .measurement _ _, _ => by simp only [Expr.EvalWF]
  | .ident _, _ => by simp only [Expr.EvalWF]
  | .matrix _ rows, h => by
    simp only [Expr.WF] at h
    simp only [Expr.EvalWF]
    have := Expr.WFRows.evalWF rows h.2.2.2
    exact ⟨h.2.1, this.2, h.2.2.1, this.1⟩
  | .call c _ args, h => by
    simp only [Expr.WF] at h
    simp only [Expr.EvalWF]
    exact ⟨Expr.WF.evalWF c h.2.1, Expr.WFArgs.evalWF args h.2.2⟩
theorem Expr.WFArgs.evalWF : ∀ (es : List (Expr S)), Expr.WFArgs es → Expr.EvalWFArgs es
  | [], _ => by simp only [Expr.EvalWFArgs]
  | e :: es, h => by
    simp only [Expr.WFArgs] at h
    simp only [Expr.EvalWFArgs]
    exact ⟨Expr.WF.evalWF e h.1, Expr.WFArgs.evalWF es h.2⟩
theorem Expr.WFRows.evalWF : ∀ (rows : List (List (Expr S))), Expr.WFRows rows →
    Expr.EvalWFRows rows ∧ ∀ r ∈ rows, r ≠ []
  | [], _ => by
    simp only [Expr.EvalWFRows, true_and]
    intro r hr; cases hr
  | r :: rs, h => by
    simp only [Expr.WFRows] at h
    simp only [Expr.EvalWFRows]
    have ih := Expr.WFRows.evalWF rs h.2.2
    refine ⟨⟨Expr.WFArgs.evalWF r h.2.1, ih.1⟩, ?_⟩
    intro x hx
    rcases List.mem_cons.mp hx with rfl | hx
    · exact h.1
    · exact ih.2 x hx
end

theorem Stmt.WF.evalWF (s : Stmt S) (h : s.WF) : s.EvalWF := by
  cases s with
  | expr e => exact Expr.WF.evalWF e h
  | assign n e => exact Expr.WF.evalWF e h.2
  | define n sig body => exact Expr.WF.evalWF body h.2
  | deleteVar n => trivial
  | deleteSig n sig => trivial
  | clear => trivial

end Calc
