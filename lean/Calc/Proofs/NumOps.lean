/-
  Calc.Proofs.NumOps — what `binop`, `unop`, `groupop` and `factorial` compute on numbers
  (used by C02).  The field operations, unary minus and the factorial loop are proved over any
  lawful kernel; power, remainder, root, modulus, ceiling and floor at the exact kernel `ℂ`.
-/
import Mathlib.Data.Nat.Factorial.Basic
import Calc.Proofs.ComplexKernel
import Calc.Model.Eval

namespace Calc

set_option linter.unusedSectionVars false

section Generic
variable {K : Type} [Field K] [CharZero K] [Kernel K] [LawfulKernel K]

/-- the loop of `factorial`, started anywhere: multiplying `m!` by `m+1, …, m+k` gives `(m+k)!` -/
theorem factorial_loop_from (k m : Nat) :
    (List.range' (m + 1) k).foldl (fun (acc : K) j => acc * Kernel.ofNat j) ((Nat.factorial m : ℕ) : K)
      = ((Nat.factorial (m + k) : ℕ) : K) := by
  induction k generalizing m with
  | zero => simp
  | succ k ih =>
    rw [List.range'_succ, List.foldl_cons, LawfulKernel.ofNat_eq]
    have : ((Nat.factorial m : ℕ) : K) * ((m + 1 : ℕ) : K) = ((Nat.factorial (m + 1) : ℕ) : K) := by
      rw [Nat.factorial_succ, Nat.cast_mul, mul_comm]
    rw [this, ih (m + 1)]
    congr 2
    omega

/-- the product over `2..n` is `n!` -/
theorem factorial_loop (n : Nat) :
    (List.range' 2 (n - 1)).foldl (fun (acc : K) j => acc * Kernel.ofNat j) 1
      = ((Nat.factorial n : ℕ) : K) := by
  have h := factorial_loop_from (K := K) (n - 1) 1
  simp only [Nat.factorial_one, Nat.cast_one] at h
  rw [h]
  cases n with
  | zero => simp
  | succ n => congr 2; omega

theorem factorial_eq (n : Nat) (hn : n ≤ 170) : (factorial n : K) = ((Nat.factorial n : ℕ) : K) := by
  unfold factorial
  rw [if_neg (by omega)]
  exact factorial_loop n

variable (op : Tok K) (x y : K)

theorem binop_plus (h : op.tag = .plus) : binop op (.number x) (.number y) = .ok (.number (x + y)) := by
  simp only [binop, h]
theorem binop_minus (h : op.tag = .minus) : binop op (.number x) (.number y) = .ok (.number (x - y)) := by
  simp only [binop, h]
theorem binop_star (h : op.tag = .star) : binop op (.number x) (.number y) = .ok (.number (x * y)) := by
  simp only [binop, h]

open Classical in
theorem binop_slash (h : op.tag = .slash) :
    binop op (.number x) (.number y) =
      if y = 0 then .diag ⟨.divisionByZero, op.line, op.col, []⟩ else .ok (.number (x / y)) := by
  simp only [binop, h, diagAt]
  by_cases hy : y = 0
  · rw [if_pos hy, if_pos ((LawfulKernel.normIsZero_iff y).2 hy)]
  · rw [if_neg hy, if_neg (fun hz => hy ((LawfulKernel.normIsZero_iff y).1 hz))]

theorem unop_minus (h : op.tag = .minus) : unop op (.number x) = .ok (.number (-x)) := by
  simp only [unop, h, LawfulKernel.negOne_eq, mul_neg, mul_one]

end Generic

/-! ### at the exact kernel -/

section AtComplex
open Complex
variable (op : Tok ℂ) (x y : ℂ)

theorem binop_caret (h : op.tag = .caret) : binop op (.number x) (.number y) = .ok (.number (x ^ y)) := by
  simp only [binop, h, kernel_powc]

open Classical in
theorem binop_percent (h : op.tag = .percent) :
    binop op (.number x) (.number y) =
      if y = 0 then .diag ⟨.divisionByZero, op.line, op.col, []⟩
      else .ok (.number (x - y * truncC (x / y))) := by
  simp only [binop, h, diagAt, kernel_rem]
  by_cases hy : y = 0
  · rw [if_pos hy, if_pos ((kernel_normIsZero y).2 hy)]
  · rw [if_neg hy, if_neg (fun hz => hy ((kernel_normIsZero y).1 hz))]

theorem unop_sqrt (h : op.tag = .sqrt) :
    unop op (.number x) = .ok (.number (x ^ ((1 : ℂ) / 2))) := by
  simp only [unop, h, kernel_sqrt]

theorem fits_natural (x : ℂ) :
    fits .natural (.number x) = true ↔ (x.im = 0 ∧ Int.fract x.re = 0 ∧ 0 ≤ x.re) := by
  simp only [fits, Bool.and_eq_true, kernel_imIsZero, kernel_reFractIsZero, kernel_reNonneg, and_assoc]

theorem fits_real (x : ℂ) : fits .real (.number x) = true ↔ x.im = 0 := by
  simp only [fits, kernel_imIsZero]

theorem unop_bang_ok (h : op.tag = .bang) (hx : x.im = 0 ∧ Int.fract x.re = 0 ∧ 0 ≤ x.re)
    (hb : ⌊x.re⌋₊ ≤ 170) :
    unop op (.number x) = .ok (.number ((Nat.factorial ⌊x.re⌋₊ : ℕ) : ℂ)) := by
  simp only [unop, h]
  rw [if_pos ((fits_natural x).2 hx), kernel_reToNat, factorial_eq _ hb]

theorem unop_bang_refuse (h : op.tag = .bang) (hx : ¬ (x.im = 0 ∧ Int.fract x.re = 0 ∧ 0 ≤ x.re)) :
    unop op (.number x) = .diag ⟨.unaryOperatorValueConstraintNotMet, op.line, op.col, []⟩ := by
  simp only [unop, h, diagAt]
  rw [if_neg (fun hf => hx ((fits_natural x).1 hf))]

theorem groupop_paren (v : Value ℂ) : groupop op .grouping v = .ok v := rfl

theorem groupop_abs : groupop op .absolute (.number x) = .ok (.number ((‖x‖ : ℝ) : ℂ)) := rfl

open Classical in
theorem groupop_ceil :
    groupop op .ceil (.number x) =
      if x.im = 0 then .ok (.number ((⌈x.re⌉ : ℤ) : ℂ))
      else .diag ⟨.groupingValueConstraintNotMet, op.line, op.col, []⟩ := by
  simp only [groupop, diagAt, kernel_ceilRe]
  by_cases hx : x.im = 0
  · rw [if_pos hx, if_pos ((fits_real x).2 hx)]
  · rw [if_neg hx, if_neg (fun hf => hx ((fits_real x).1 hf))]

open Classical in
theorem groupop_floor :
    groupop op .floor (.number x) =
      if x.im = 0 then .ok (.number ((⌊x.re⌋ : ℤ) : ℂ))
      else .diag ⟨.groupingValueConstraintNotMet, op.line, op.col, []⟩ := by
  simp only [groupop, diagAt, kernel_floorRe]
  by_cases hx : x.im = 0
  · rw [if_pos hx, if_pos ((fits_real x).2 hx)]
  · rw [if_neg hx, if_neg (fun hf => hx ((fits_real x).1 hf))]

end AtComplex

end Calc
