/-
  Calc.Proofs.WfDefs — the reachable states of the evaluator (C01): well-formed trees,
  well-formed values, well-formed tables, and "no panic" as a predicate on results.

  `Expr.EvalWF` asks of a tree only what `eval` relies on (the parser's `Expr.WF` of
  Calc/Proofs/ParseWF.lean is stronger: it also fixes the tokens of groupings, calls, …).
  Core Lean only.
-/
import Calc.Model.Stmt
namespace Calc
variable {S : Type}

/-- the tags `evaluate_binary` has an arm for (expr.rs:177-345) -/
def binTag : Tag → Bool
  | .plus | .minus | .star | .slash | .percent | .caret | .dot | .cross => true
  | _ => false

/-- the tags `evaluate_unary` has an arm for (expr.rs:353-398) -/
def unTag : Tag → Bool
  | .minus | .sqrt | .bang => true
  | _ => false

mutual
/-- what `eval` relies on: operator nodes carry an operator token of their arity; a matrix
    literal has at least one row, no empty row, and rows of one length; recursively -/
def Expr.EvalWF : Expr S → Prop
  | .as_ e _ _ => e.EvalWF
  | .binary l op r => binTag op.tag = true ∧ l.EvalWF ∧ r.EvalWF
  | .unary op x => unTag op.tag = true ∧ x.EvalWF
  | .grouping _ _ e => e.EvalWF
  | .number _ => True
  | .measurement _ _ => True
  | .matrix _ rows =>
      rows ≠ [] ∧ (∀ r ∈ rows, r ≠ []) ∧ (∀ a ∈ rows, ∀ b ∈ rows, a.length = b.length) ∧
      Expr.EvalWFRows rows
  | .ident _ => True
  | .call callee _ args => callee.EvalWF ∧ Expr.EvalWFArgs args
def Expr.EvalWFArgs : List (Expr S) → Prop
  | [] => True
  | e :: es => e.EvalWF ∧ Expr.EvalWFArgs es
def Expr.EvalWFRows : List (List (Expr S)) → Prop
  | [] => True
  | r :: rs => Expr.EvalWFArgs r ∧ Expr.EvalWFRows rs
end

theorem Expr.evalWFArgs_iff (es : List (Expr S)) : Expr.EvalWFArgs es ↔ ∀ e ∈ es, e.EvalWF := by
  induction es with
  | nil => simp [Expr.EvalWFArgs]
  | cons e es ih => simp [Expr.EvalWFArgs, ih]

theorem Expr.evalWFRows_iff (rs : List (List (Expr S))) :
    Expr.EvalWFRows rs ↔ ∀ r ∈ rs, Expr.EvalWFArgs r := by
  induction rs with
  | nil => simp [Expr.EvalWFRows]
  | cons r rs ih => simp [Expr.EvalWFRows, ih]

/-- a name of the built-in table -/
def NativeName (n : Str) : Prop := ∃ spec ∈ Gen.builtins, spec.name.toList = n

/-- the values the evaluator can hold: matrices are what `Matrix::from_rows` accepts, native
    function values name a function of the table, the bodies of user functions are well formed -/
def Value.WF : Value S → Prop
  | .number _ => True
  | .measurement _ _ => True
  | .matrix m => Mat.wellShaped m = true
  | .native n => NativeName n
  | .user fn => ∀ se ∈ fn.sigs, se.2.EvalWF

/-- every stored value is well formed -/
def EnvWF (env : Env S) : Prop := ∀ kv ∈ env, kv.2.value.WF

def Stmt.EvalWF : Stmt S → Prop
  | .expr e => e.EvalWF
  | .assign _ e => e.EvalWF
  | .define _ _ body => body.EvalWF
  | .deleteVar _ => True
  | .deleteSig _ _ => True
  | .clear => True

/-- a result that is neither a panic nor out of fuel; a value satisfies `P` -/
def Res.Safe {α} (P : α → Prop) : Res α → Prop
  | .ok a => P a
  | .diag _ => True
  | .panic _ => False
  | .fuel => False

/-- a result that is not a panic (it may be out of fuel); a value satisfies `P` -/
def Res.NoPanic {α} (P : α → Prop) : Res α → Prop
  | .ok a => P a
  | .diag _ => True
  | .panic _ => False
  | .fuel => True

theorem Res.safe_iff {α} {P : α → Prop} {r : Res α} :
    r.Safe P ↔ (∃ a, r = .ok a ∧ P a) ∨ (∃ d, r = .diag d) := by
  cases r <;> simp [Res.Safe]

theorem Res.noPanic_iff {α} {P : α → Prop} {r : Res α} :
    r.NoPanic P ↔ (∃ a, r = .ok a ∧ P a) ∨ (∃ d, r = .diag d) ∨ r = .fuel := by
  cases r <;> simp [Res.NoPanic]

theorem Res.Safe.noPanic {α} {P : α → Prop} {r : Res α} (h : r.Safe P) : r.NoPanic P := by
  cases r <;> simp_all [Res.Safe, Res.NoPanic]

theorem Res.Safe.bind {α β} {P : α → Prop} {Q : β → Prop} {r : Res α} {f : α → Res β}
    (hr : r.Safe P) (hf : ∀ a, P a → (f a).Safe Q) : (r.bind f).Safe Q := by
  cases r with
  | ok a => exact hf a hr
  | diag d => trivial
  | panic s => exact hr
  | fuel => exact hr

theorem Res.safe_of_eq_ok {α} {P : α → Prop} {r : Res α} {a : α} (h : r = .ok a) (hp : P a) :
    r.Safe P := by
  subst h; exact hp

end Calc
