-- GENERATED on every run from the compiled /repo tree by gen_tables.py (harness dump). Do not edit.
import Calc.Model.TableTypes
namespace Calc.Gen

/-- `get_constants()` (builtin_math.rs:60-102), sorted by key -/
def initEntries : List InitEntry :=
  [⟨"G", true, .number 0x40239d013a92a305 0x0000000000000000⟩,
   ⟨"abs", true, .native "abs"⟩,
   ⟨"acos", true, .native "acos"⟩,
   ⟨"acosh", true, .native "acosh"⟩,
   ⟨"arg", true, .native "arg"⟩,
   ⟨"asin", true, .native "asin"⟩,
   ⟨"asinh", true, .native "asinh"⟩,
   ⟨"atan", true, .native "atan"⟩,
   ⟨"atanh", true, .native "atanh"⟩,
   ⟨"c", true, .number 0x41b1de784a000000 0x0000000000000000⟩,
   ⟨"ceil", true, .native "ceil"⟩,
   ⟨"conj", true, .native "conj"⟩,
   ⟨"cos", true, .native "cos"⟩,
   ⟨"cosh", true, .native "cosh"⟩,
   ⟨"determinant", true, .native "determinant"⟩,
   ⟨"e", true, .number 0x4005bf0a8b145769 0x0000000000000000⟩,
   ⟨"floor", true, .native "floor"⟩,
   ⟨"gcd", true, .native "gcd"⟩,
   ⟨"i", true, .number 0x0000000000000000 0x3ff0000000000000⟩,
   ⟨"identity", true, .native "identity"⟩,
   ⟨"im", true, .native "im"⟩,
   ⟨"inverse", true, .native "inverse"⟩,
   ⟨"lcm", true, .native "lcm"⟩,
   ⟨"ln", true, .native "ln"⟩,
   ⟨"log", true, .native "log"⟩,
   ⟨"log10", true, .native "log10"⟩,
   ⟨"log2", true, .native "log2"⟩,
   ⟨"phi", true, .number 0x3ff9e3779b97f4a8 0x0000000000000000⟩,
   ⟨"pi", true, .number 0x400921fb54442d18 0x0000000000000000⟩,
   ⟨"re", true, .native "re"⟩,
   ⟨"sin", true, .native "sin"⟩,
   ⟨"sinh", true, .native "sinh"⟩,
   ⟨"sqrt", true, .native "sqrt"⟩,
   ⟨"tan", true, .native "tan"⟩,
   ⟨"tanh", true, .native "tanh"⟩,
   ⟨"tau", true, .number 0x401921fb54442d18 0x0000000000000000⟩,
   ⟨"transpose", true, .native "transpose"⟩,
   ⟨"π", true, .number 0x400921fb54442d18 0x0000000000000000⟩,
   ⟨"ϕ", true, .number 0x3ff9e3779b97f4a8 0x0000000000000000⟩]

end Calc.Gen
