-- GENERATED on every run from the compiled /repo tree by gen_tables.py (harness dump). Do not edit.
import Calc.Model.TableTypes
namespace Calc.Gen

/-- the native functions of the initial table, by their own name -/
def builtins : List BuiltinSpec :=
  [⟨"abs", [⟨"val", .number⟩]⟩,
   ⟨"acos", [⟨"val", .number⟩]⟩,
   ⟨"acosh", [⟨"val", .number⟩]⟩,
   ⟨"arg", [⟨"val", .number⟩]⟩,
   ⟨"asin", [⟨"val", .number⟩]⟩,
   ⟨"asinh", [⟨"val", .number⟩]⟩,
   ⟨"atan", [⟨"val", .number⟩]⟩,
   ⟨"atanh", [⟨"val", .number⟩]⟩,
   ⟨"ceil", [⟨"val", .real⟩]⟩,
   ⟨"conj", [⟨"val", .number⟩]⟩,
   ⟨"cos", [⟨"val", .number⟩]⟩,
   ⟨"cosh", [⟨"val", .number⟩]⟩,
   ⟨"determinant", [⟨"matrix", .squareMatrix⟩]⟩,
   ⟨"floor", [⟨"val", .real⟩]⟩,
   ⟨"gcd", [⟨"first", .integer⟩, ⟨"second", .integer⟩]⟩,
   ⟨"identity", [⟨"size", .positiveInteger⟩]⟩,
   ⟨"im", [⟨"val", .number⟩]⟩,
   ⟨"inverse", [⟨"matrix", .squareMatrix⟩]⟩,
   ⟨"lcm", [⟨"first", .integer⟩, ⟨"second", .integer⟩]⟩,
   ⟨"ln", [⟨"val", .number⟩]⟩,
   ⟨"log", [⟨"base", .real⟩, ⟨"val", .number⟩]⟩,
   ⟨"log10", [⟨"val", .number⟩]⟩,
   ⟨"log2", [⟨"val", .number⟩]⟩,
   ⟨"re", [⟨"val", .number⟩]⟩,
   ⟨"sin", [⟨"val", .number⟩]⟩,
   ⟨"sinh", [⟨"val", .number⟩]⟩,
   ⟨"sqrt", [⟨"val", .number⟩]⟩,
   ⟨"tan", [⟨"val", .number⟩]⟩,
   ⟨"tanh", [⟨"val", .number⟩]⟩,
   ⟨"transpose", [⟨"matrix", .matrix⟩]⟩]

end Calc.Gen
