-- GENERATED on every run from the compiled /repo tree by gen_tables.py (harness dump). Do not edit.
import Calc.Model.Basic
namespace Calc.Gen

/-- `get_per_meter` / `get_per_kilo` / `get_per_byte` as IEEE-754 bits (0 for temperature, which has no factor) -/
def perBaseBits : Calc.Unit → Nat
  | .distance .nanometer => 0x41cdcd6500000000
  | .distance .micrometer => 0x412e848000000000
  | .distance .millimeter => 0x408f400000000000
  | .distance .centimeter => 0x4059000000000000
  | .distance .meter => 0x3ff0000000000000
  | .distance .kilometer => 0x3f50624dd2f1a9fc
  | .distance .inch => 0x4043af5f6fd21ff3
  | .distance .foot => 0x400a3f290abb44e5
  | .distance .yard => 0x3ff17f70b1d22d58
  | .distance .mile => 0x3f445c7084723e13
  | .mass .nanogram => 0x426d1a94a2000000
  | .mass .microgram => 0x41cdcd6500000000
  | .mass .milligram => 0x412e848000000000
  | .mass .gram => 0x408f400000000000
  | .mass .kilogram => 0x3ff0000000000000
  | .mass .tonne => 0x3f50624dd2f1a9fc
  | .mass .ounce => 0x4041a3126e978d50
  | .mass .pound => 0x4001a30fcf80dc33
  | .mass .stone => 0x3fc4281344806291
  | .temperature .kelvin => 0x0000000000000000
  | .temperature .celsius => 0x0000000000000000
  | .temperature .fahrenheit => 0x0000000000000000
  | .storage .byte => 0x3ff0000000000000
  | .storage .kilobyte => 0x3f50624dd2f1a9fc
  | .storage .megabyte => 0x3eb0c6f7a0b5ed8d
  | .storage .gigabyte => 0x3e112e0be826d695
  | .storage .terabyte => 0x3d719799812dea11
  | .storage .petabyte => 0x3cd203af9ee75616
  | .storage .exabyte => 0x3c32725dd1d243ac
  | .storage .kibibyte => 0x3f50000000000000
  | .storage .mebibyte => 0x3eb0000000000000
  | .storage .gibibyte => 0x3e10000000000000
  | .storage .tebibyte => 0x3d70000000000000
  | .storage .petibyte => 0x3cd0000000000000
  | .storage .exbibyte => 0x3c30000000000000
  | .storage .bit => 0x3fc0000000000000
  | .storage .kilobit => 0x3f20624dd2f1a9fc
  | .storage .megabit => 0x3e80c6f7a0b5ed8d
  | .storage .gigabit => 0x3de12e0be826d695
  | .storage .terabit => 0x3d419799812dea11
  | .storage .petabit => 0x3ca203af9ee75616
  | .storage .exabit => 0x3c02725dd1d243ac
  | .storage .kibibit => 0x3f20000000000000
  | .storage .mebibit => 0x3e80000000000000
  | .storage .gibibit => 0x3de0000000000000
  | .storage .tebibit => 0x3d40000000000000
  | .storage .petibit => 0x3ca0000000000000
  | .storage .exbibit => 0x3c00000000000000

/-- `Display` of the unit -/
def unitSymbol : Calc.Unit → String
  | .distance .nanometer => "nm"
  | .distance .micrometer => "μm"
  | .distance .millimeter => "mm"
  | .distance .centimeter => "cm"
  | .distance .meter => "m"
  | .distance .kilometer => "km"
  | .distance .inch => "in"
  | .distance .foot => "ft"
  | .distance .yard => "yd"
  | .distance .mile => "mi"
  | .mass .nanogram => "ng"
  | .mass .microgram => "µg"
  | .mass .milligram => "mg"
  | .mass .gram => "g"
  | .mass .kilogram => "kg"
  | .mass .tonne => "t"
  | .mass .ounce => "oz"
  | .mass .pound => "lb"
  | .mass .stone => "st"
  | .temperature .kelvin => "°K"
  | .temperature .celsius => "°C"
  | .temperature .fahrenheit => "°F"
  | .storage .byte => "B"
  | .storage .kilobyte => "KB"
  | .storage .megabyte => "MB"
  | .storage .gigabyte => "GB"
  | .storage .terabyte => "TB"
  | .storage .petabyte => "PB"
  | .storage .exabyte => "EB"
  | .storage .kibibyte => "KiB"
  | .storage .mebibyte => "MiB"
  | .storage .gibibyte => "GiB"
  | .storage .tebibyte => "TiB"
  | .storage .petibyte => "PiB"
  | .storage .exbibyte => "EiB"
  | .storage .bit => "b"
  | .storage .kilobit => "Kb"
  | .storage .megabit => "Mb"
  | .storage .gigabit => "Gb"
  | .storage .terabit => "Tb"
  | .storage .petabit => "Pb"
  | .storage .exabit => "Eb"
  | .storage .kibibit => "Kib"
  | .storage .mebibit => "Mib"
  | .storage .gibibit => "Gib"
  | .storage .tebibit => "Tib"
  | .storage .petibit => "Pib"
  | .storage .exbibit => "Eib"

/-- the Rust variant names in protocol order (checked against the model's constructor order) -/
def unitVariantNames : List (String × String) :=
  [("distance", "Nanometer"),
   ("distance", "Micrometer"),
   ("distance", "Millimeter"),
   ("distance", "Centimeter"),
   ("distance", "Meter"),
   ("distance", "Kilometer"),
   ("distance", "Inch"),
   ("distance", "Foot"),
   ("distance", "Yard"),
   ("distance", "Mile"),
   ("mass", "Nanogram"),
   ("mass", "Microgram"),
   ("mass", "Milligram"),
   ("mass", "Gram"),
   ("mass", "Kilogram"),
   ("mass", "Tonne"),
   ("mass", "Ounce"),
   ("mass", "Pound"),
   ("mass", "Stone"),
   ("temperature", "Kelvin"),
   ("temperature", "Celsius"),
   ("temperature", "Fahrenheit"),
   ("storage", "Byte"),
   ("storage", "Kilobyte"),
   ("storage", "Megabyte"),
   ("storage", "Gigabyte"),
   ("storage", "Terabyte"),
   ("storage", "Petabyte"),
   ("storage", "Exabyte"),
   ("storage", "Kibibyte"),
   ("storage", "Mebibyte"),
   ("storage", "Gibibyte"),
   ("storage", "Tebibyte"),
   ("storage", "Petibyte"),
   ("storage", "Exbibyte"),
   ("storage", "Bit"),
   ("storage", "Kilobit"),
   ("storage", "Megabit"),
   ("storage", "Gigabit"),
   ("storage", "Terabit"),
   ("storage", "Petabit"),
   ("storage", "Exabit"),
   ("storage", "Kibibit"),
   ("storage", "Mebibit"),
   ("storage", "Gibibit"),
   ("storage", "Tebibit"),
   ("storage", "Petibit"),
   ("storage", "Exbibit")]

end Calc.Gen
