/-
  Calc.Exec.Canon — canonical text forms of model values, identical to harness/src/canon.rs
  (DESIGN.md appendix C).  Executable glue only.
-/
import Calc.Model.Front
import Calc.Model.Print
import Calc.Exec.Cx
import Calc.Generated.Keywords
import Calc.Generated.UnicodeClasses
namespace Calc.Exec
open Calc

def hexDigit (n : Nat) : Char := if n < 10 then Char.ofNat (48 + n) else Char.ofNat (87 + n)

def hexBytes (b : ByteArray) : String := Id.run do
  if b.size = 0 then return "-"
  let mut s := ""
  for x in b do
    s := s.push (hexDigit (x.toNat / 16)) |>.push (hexDigit (x.toNat % 16))
  return s

def hexStr (s : String) : String := hexBytes s.toUTF8
def hex (s : Str) : String := hexStr (String.ofList s)

def hexVal (c : Char) : Nat :=
  if '0' ≤ c && c ≤ '9' then c.toNat - 48 else if 'a' ≤ c && c ≤ 'f' then c.toNat - 87 else 0

def unhexStr (s : String) : String :=
  if s == "-" then "" else Id.run do
    let cs := s.toList.toArray
    let mut b := ByteArray.empty
    for i in [0:cs.size / 2] do
      b := b.push (UInt8.ofNat (hexVal cs[2*i]! * 16 + hexVal cs[2*i+1]!))
    return (String.fromUTF8? b).getD ""

def unhex (s : String) : Str := (unhexStr s).toList

def hex16 (n : UInt64) : String := Id.run do
  let mut s := ""
  for i in [0:16] do
    s := s.push (hexDigit ((n >>> (UInt64.ofNat (60 - 4*i))).toNat % 16))
  return s

def fbits (x : Float) : String :=
  if x.isNaN then "#7ff8000000000000" else "#" ++ hex16 x.toBits

def cbits (z : Cx) : String := fbits z.re ++ "_" ++ fbits z.im

def parseHex64 (s : String) : UInt64 :=
  (s.toList.filter (· != '#')).foldl (fun acc c => acc * 16 + UInt64.ofNat (hexVal c)) 0

def parseFbits (s : String) : Float := Float.ofBits (parseHex64 s)

def parseCbits (s : String) : Cx :=
  match s.splitOn "_" with
  | [a, b] => ⟨parseFbits a, parseFbits b⟩
  | _ => ⟨0.0, 0.0⟩

def unitIndex (u : Unit) : Nat := (Unit.all.findIdx? (· == u)).getD 999
def unitOfIndex (i : Nat) : Unit := Unit.all.getD i (.distance .meter)

def tagCode : Tag → Nat
  | .lparen => 0 | .rparen => 1 | .lbracket => 2 | .rbracket => 3 | .lceil => 4 | .rceil => 5
  | .lfloor => 6 | .rfloor => 7 | .plus => 8 | .minus => 9 | .slash => 10 | .star => 11
  | .caret => 12 | .bang => 13 | .pipe => 14 | .percent => 15 | .comma => 16 | .equal => 17
  | .sqrt => 18 | .dot => 19 | .cross => 20 | .newline => 21 | .semicolon => 22 | .delete => 23
  | .clear => 24 | .as_ => 25 | .ident => 26 | .number => 27 | .unit => 28

def kindOfCode (code : Nat) (payload : Option String) : Kind Cx :=
  match code with
  | 0 => .lparen | 1 => .rparen | 2 => .lbracket | 3 => .rbracket | 4 => .lceil | 5 => .rceil
  | 6 => .lfloor | 7 => .rfloor | 8 => .plus | 9 => .minus | 10 => .slash | 11 => .star
  | 12 => .caret | 13 => .bang | 14 => .pipe | 15 => .percent | 16 => .comma | 17 => .equal
  | 18 => .sqrt | 19 => .dot | 20 => .cross | 21 => .newline | 22 => .semicolon | 23 => .delete
  | 24 => .clear | 25 => .as_
  | 26 => .ident (unhex (payload.getD "-"))
  | 27 => .number (parseCbits (payload.getD ""))
  | _ => .unit (unitOfIndex ((payload.getD "0").toNat!))

def tokS (t : Tok Cx) : String :=
  let payload := match t.kind with
    | .ident n => ":" ++ hex n
    | .number z => ":" ++ cbits z
    | .unit u => ":" ++ toString (unitIndex u)
    | _ => ""
  "{" ++ toString (tagCode t.tag) ++ "@" ++ toString t.line ++ ":" ++ toString t.col ++ ":" ++ hex t.lexeme ++ payload ++ "}"

def gkCode : GKind → Nat | .grouping => 0 | .absolute => 1 | .ceil => 2 | .floor => 3

mutual
def exprS : Expr Cx → String
  | .as_ e t u => "A" ++ tokS t ++ "u" ++ toString (unitIndex u) ++ "(" ++ exprS e ++ ")"
  | .binary l op r => "B" ++ tokS op ++ "(" ++ exprS l ++ "," ++ exprS r ++ ")"
  | .unary op x => "U" ++ tokS op ++ "(" ++ exprS x ++ ")"
  | .grouping p k e => "G" ++ toString (gkCode k) ++ tokS p ++ "(" ++ exprS e ++ ")"
  | .number z => "N" ++ cbits z
  | .measurement z u => "Q" ++ toString (unitIndex u) ++ "_" ++ cbits z
  | .matrix b rows => "M" ++ tokS b ++ "[" ++ ";".intercalate (rowsS rows) ++ "]"
  | .ident n => "I" ++ tokS n
  | .call c p args => "C" ++ tokS p ++ "(" ++ exprS c ++ "|" ++ ",".intercalate (argsS args) ++ ")"
def argsS : List (Expr Cx) → List String
  | [] => []
  | e :: es => exprS e :: argsS es
def rowsS : List (List (Expr Cx)) → List String
  | [] => []
  | r :: rs => ",".intercalate (argsS r) :: rowsS rs
end

def sigS (s : Sig Cx) : String :=
  ",".intercalate (s.params.map fun p => match p with
    | .ident n => "i" ++ hex n
    | .number z => "n" ++ cbits z)

def stmtS : Stmt Cx → String
  | .expr e => "E:" ++ exprS e
  | .deleteVar n => "X:" ++ tokS n
  | .deleteSig n s => "S:" ++ tokS n ++ ":(" ++ sigS s ++ ")"
  | .assign n e => "=:" ++ tokS n ++ ":" ++ exprS e
  | .define n s e => "D:" ++ tokS n ++ ":(" ++ sigS s ++ "):" ++ exprS e
  | .clear => "K"

def valueS : Value Cx → String
  | .number z => "n:" ++ cbits z
  | .measurement z u => "q:" ++ toString (unitIndex u) ++ ":" ++ cbits z
  | .matrix m =>
    "m:" ++ toString m.length ++ ":" ++ toString (m.headD []).length ++ ":" ++
      ",".intercalate (m.flatten.map cbits)
  | .native n => "fn:" ++ hex n
  | .user f =>
    "fu:" ++ hex f.name ++ ":" ++ "".intercalate (f.sigs.map fun se => "[(" ++ sigS se.1 ++ ")=" ++ exprS se.2 ++ "]")

def fnv1a (s : String) : UInt64 :=
  s.toUTF8.foldl (fun h b => (h ^^^ b.toUInt64) * 0x100000001b3) 0xcbf29ce484222325

def snapshot (env : Env Cx) : String :=
  let entries := env.map fun (k, v) => (hex k, v)
  let sorted := entries.toArray.qsort (fun a b => a.1 < b.1) |>.toList
  let user := sorted.filter (fun e => !e.2.constant) |>.map fun e => e.1 ++ "=" ++ valueS e.2.value
  let consts := "".intercalate (sorted.filter (fun e => e.2.constant) |>.map fun e => e.1 ++ "=" ++ valueS e.2.value ++ ";")
  (if user.isEmpty then "-" else ";".intercalate user) ++ " consts=" ++ hex16 (fnv1a consts)

def evalKindName : EvalErrKind → String
  | .incorrectParameterCount => "incorrectParameterCount" | .incorrectParameterType => "incorrectParameterType"
  | .cantAddSignature => "cantAddSignature" | .cantDeleteSignature => "cantDeleteSignature"
  | .noMatchingSignature => "noMatchingSignature" | .divisionByZero => "divisionByZero"
  | .unsupportedBinaryOperator => "unsupportedBinaryOperator" | .unsupportedUnaryOperator => "unsupportedUnaryOperator"
  | .unaryOperatorValueConstraintNotMet => "unaryOperatorValueConstraintNotMet"
  | .invalidGroupingOperand => "invalidGroupingOperand" | .groupingValueConstraintNotMet => "groupingValueConstraintNotMet"
  | .invalidCallable => "invalidCallable" | .constantAssignment => "constantAssignment"
  | .constantDeletion => "constantDeletion" | .unknownVariable => "unknownVariable"
  | .invalidMatrixParameter => "invalidMatrixParameter" | .noInverseForMatrix => "noInverseForMatrix"
  | .invalidMeasurementConversion => "invalidMeasurementConversion"

def parseKindName : ParseErrKind → String
  | .expectedExpression => "expectedExpression" | .expectedUnit => "expectedUnit"
  | .expectedDelimeter => "expectedDelimeter" | .expectedToken => "expectedToken"
  | .invalidAssignmentTarget => "invalidAssignmentTarget" | .cannotDelete => "cannotDelete"
  | .inconsistentMatrixRowLength => "inconsistentMatrixRowLength"

def diagS (d : Diag) : String :=
  "err " ++ evalKindName d.kind ++ " " ++ toString d.line ++ " " ++ toString d.col ++ " " ++ hex d.info

def perrS (e : PErr) : String :=
  parseKindName e.kind ++ " " ++
    (match e.pos with | some (l, c) => toString l ++ " " ++ toString c | none => "- -") ++ " " ++ hex e.info

def scanErrS (e : ScanErr) : String := toString e.line ++ " " ++ toString e.col ++ " " ++ toString e.ch.toNat

/-! scanner configuration of the executable instance -/

def inRanges (rs : Array (Nat × Nat)) (n : Nat) : Bool := Id.run do
  let mut lo := 0
  let mut hi := rs.size
  while lo < hi do
    let mid := (lo + hi) / 2
    let (a, b) := rs[mid]!
    if n < a then hi := mid else if n > b then lo := mid + 1 else return true
  return false

def kwKind : Gen.KwKind → Kind Cx
  | .delete => .delete | .cross => .cross | .as_ => .as_ | .dot => .dot | .clear => .clear
  | .unit u => .unit u
  | .other code => kindOfCode code none

def keywordLookup (w : Str) : Option (Kind Cx) :=
  let s := String.ofList w
  (Gen.keywordTable.find? (·.1 == s)).map (fun e => kwKind e.2)

def scanCfg (tab : Nat) : ScanCfg Cx :=
  { tab := tab, isAlnum := fun c => inRanges Gen.alnumRanges c.toNat, keyword := keywordLookup }

def initEnv : Env Cx :=
  Gen.initEntries.map fun e =>
    (e.key.toList,
     ⟨match e.val with
       | .number re im => .number (Kernel.ofBits re im)
       | .native n => .native n.toList,
      e.constant⟩)

end Calc.Exec
