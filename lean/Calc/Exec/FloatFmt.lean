/-
  Calc.Exec.FloatFmt — the two std routines the executable kernel needs and Lean's core lacks:
  `f64::from_str` (correctly rounded decimal → binary64) and `Display for f64` (shortest digits
  that read back, no exponent form).  Exact `Nat` arithmetic throughout.  Executable only: no
  theorem mentions these; the `fmt` correspondence stream compares them with Rust on every run.
-/
namespace Calc.Exec

def pow10 (n : Nat) : Nat := 10 ^ n

/-- number of decimal digits of `n` (0 for 0) -/
def decDigits (n : Nat) : Nat := if n = 0 then 0 else (Nat.toDigits 10 n).length

/-- round-half-even of `num / den` -/
def divRoundEven (num den : Nat) : Nat :=
  let q := num / den
  let r := num % den
  if 2 * r > den then q + 1 else if 2 * r < den then q else (if q % 2 = 0 then q else q + 1)

/-- bits of the binary64 nearest to `m · 10^e` (ties to even), as `f64::from_str` returns -/
def decimalToBits (m : Nat) (e : Int) : UInt64 :=
  if m = 0 then 0 else
  let nd : Int := decDigits m
  if nd + e > 310 then 0x7FF0000000000000 else
  if nd + e < -330 then 0 else
  let num : Nat := if e ≥ 0 then m * pow10 e.toNat else m
  let den : Nat := if e ≥ 0 then 1 else pow10 (-e).toNat
  -- position of the leading bit of the quotient, within one
  let l : Int := (Nat.log2 num : Int) - (Nat.log2 den : Int)
  -- s: we want q = num·2^s/den in [2^52, 2^53)
  let scaled (s : Int) : Nat × Nat := if s ≥ 0 then (num * 2 ^ s.toNat, den) else (num, den * 2 ^ (-s).toNat)
  let s0 : Int := 52 - l
  let (n0, d0) := scaled s0
  let s : Int := if n0 / d0 ≥ 2 ^ 53 then s0 - 1 else if n0 / d0 < 2 ^ 52 then s0 + 1 else s0
  -- biased exponent of a normal result
  let be : Int := 52 - s + 1023
  if be ≤ 0 then
    -- subnormal (or rounds up to the smallest normal): q = round(v · 2^1074)
    let (n1, d1) := scaled 1074
    (divRoundEven n1 d1).toUInt64
  else
    let (n1, d1) := scaled s
    let q := divRoundEven n1 d1
    let (q, be) := if q ≥ 2 ^ 53 then (q / 2, be + 1) else (q, be)
    if be ≥ 2047 then 0x7FF0000000000000
    else ((be.toNat <<< 52) + (q - 2 ^ 52)).toUInt64

/-- floor(log10(num/den)) for a positive rational -/
def floorLog10 (num den : Nat) : Int := Id.run do
  let est : Int := (((Nat.log2 num : Int) - (Nat.log2 den : Int)) * 30103) / 100000 - 2
  let ge (p : Int) : Bool := -- 10^p ≤ num/den
    if p ≥ 0 then pow10 p.toNat * den ≤ num else den ≤ num * pow10 (-p).toNat
  let mut p := est
  for _ in [0:8] do
    if ge (p + 1) then p := p + 1
  return p

/-- shortest decimal `(digits, k)` with value `digits · 10^k` that rounds to the given positive
    finite double, closest to it among the shortest -/
def shortestDigits (bits : UInt64) : Nat × Int := Id.run do
  let e := ((bits >>> 52) &&& 0x7FF).toNat
  let frac := (bits &&& 0xFFFFFFFFFFFFF).toNat
  let m : Nat := if e = 0 then frac else 2 ^ 52 + frac
  let ex : Int := if e = 0 then -1074 else (e : Int) - 1075
  let boundary := frac = 0 && e > 1
  -- all quantities over the common denominator D, in units of a quarter ulp
  let u : Nat := if ex - 2 ≥ 0 then 2 ^ (ex - 2).toNat else 1
  let D : Nat := if ex - 2 ≥ 0 then 1 else 2 ^ (2 - ex).toNat
  let vn := 4 * m * u
  let hn := vn + 2 * u
  let ln := vn - (if boundary then u else 2 * u)
  let incl := m % 2 = 0
  let p := floorLog10 vn D
  let mut best : Nat × Int := (0, 0)
  let mut found := false
  for n in [1:18] do
    if !found then
      let k : Int := p - ((n : Int) - 1)
      -- candidate c·10^k as a fraction cn/cd over denominator D: compare c·10^k·D with bounds
      let scaleN : Nat := if k ≥ 0 then pow10 k.toNat else 1
      let scaleD : Nat := if k ≥ 0 then 1 else pow10 (-k).toNat
      -- c_lo = floor(v / 10^k) = floor(vn·scaleD / (D·scaleN))
      let clo := (vn * scaleD) / (D * scaleN)
      let inside (c : Nat) : Bool :=
        let x := c * scaleN * D      -- compare x / scaleD with ln, hn
        if incl then ln * scaleD ≤ x && x ≤ hn * scaleD else ln * scaleD < x && x < hn * scaleD
      let dist (c : Nat) : Nat :=
        let x := c * scaleN * D
        let y := vn * scaleD
        if x ≥ y then x - y else y - x
      let okLo := clo > 0 && inside clo
      let okHi := inside (clo + 1)
      if okLo && okHi then
        best := (if dist clo < dist (clo + 1) then clo else clo + 1, k); found := true   -- a tie goes up, as in core::num::flt2dec
      else if okLo then best := (clo, k); found := true
      else if okHi then best := (clo + 1, k); found := true
  -- strip trailing zeros
  let mut (c, k) := best
  for _ in [0:20] do
    if c ≠ 0 && c % 10 = 0 then
      c := c / 10; k := k + 1
  return (c, k)

/-- `format!("{}", x)` for an `f64` given by its bits -/
def fmtBits (bits : UInt64) : String :=
  let neg := (bits >>> 63) = 1
  let mag := bits &&& 0x7FFFFFFFFFFFFFFF
  if mag > 0x7FF0000000000000 then "NaN"
  else
    let sign := if neg then "-" else ""
    if mag = 0x7FF0000000000000 then sign ++ "inf"
    else if mag = 0 then sign ++ "0"
    else
      let (c, k) := shortestDigits mag
      let ds := toString c
      if k ≥ 0 then sign ++ ds ++ String.ofList (List.replicate k.toNat '0')
      else
        let nfrac := (-k).toNat
        if ds.length > nfrac then
          sign ++ (ds.take (ds.length - nfrac)).toString ++ "." ++ (ds.drop (ds.length - nfrac)).toString
        else sign ++ "0." ++ String.ofList (List.replicate (nfrac - ds.length) '0') ++ ds

end Calc.Exec
