/-
  Calc.Exec.FloatFmt — the two std routines the executable kernel needs and Lean's core lacks:
  `f64::from_str` (correctly rounded decimal → binary64) and `Display for f64` (shortest digits
  that read back, no exponent form).  Exact `Nat` arithmetic throughout, core Lean only (the
  driver links this file).  Theorems: `decimalToBits` is correctly rounded
  (Calc.Proofs.DecimalRound), `shortestDigits` / `fmtBits` read back to the same bits
  (Calc.Proofs.ShortestRoundTrip, Calc.Proofs.FmtText); properties in Calc.Props.C04Round.  The
  `fmt` correspondence stream also compares both routines with Rust on every run.
-/
namespace Calc.Exec

def pow10 (n : Nat) : Nat := 10 ^ n

/-- number of decimal digits of `n` (0 for 0) -/
def decDigits (n : Nat) : Nat := if n = 0 then 0 else (Nat.toDigits 10 n).length

/-- round-half-even of `num / den` -/
def divRoundEven (num den : Nat) : Nat :=
  let q := num / den
  let r := num % den
  if 2 * r > den then q + 1 else if 2 * r < den then q else (if q % 2 = 0 then q else q + 1)

/-- the fraction `num/den · 2^s` as a pair (numerator, denominator) -/
def scalePow2 (num den : Nat) (s : Int) : Nat × Nat :=
  if s ≥ 0 then (num * 2 ^ s.toNat, den) else (num, den * 2 ^ (-s).toNat)

/-- the shift `s` with `⌊num/den · 2^s⌋` in `[2^52, 2^53)` (estimate from the bit lengths, within one,
    then corrected) -/
def normShift (num den : Nat) : Int :=
  let s0 : Int := 52 - ((Nat.log2 num : Int) - (Nat.log2 den : Int))
  let p := scalePow2 num den s0
  if p.1 / p.2 ≥ 2 ^ 53 then s0 - 1 else if p.1 / p.2 < 2 ^ 52 then s0 + 1 else s0

/-- round-half-even of `num/den · 2^s` -/
def roundScaled (num den : Nat) (s : Int) : Nat :=
  divRoundEven (scalePow2 num den s).1 (scalePow2 num den s).2

/-- pack a rounded significand `q ∈ [2^52, 2^53]` with biased exponent `be ≥ 1` -/
def packNormal (q : Nat) (be : Int) : UInt64 :=
  let q' : Nat := if q ≥ 2 ^ 53 then q / 2 else q
  let be' : Int := if q ≥ 2 ^ 53 then be + 1 else be
  if be' ≥ 2047 then 0x7FF0000000000000
  else ((be'.toNat <<< 52) + (q' - 2 ^ 52)).toUInt64

/-- bits of the binary64 nearest to the positive rational `num/den` (ties to even) -/
def ratToBits (num den : Nat) : UInt64 :=
  let s := normShift num den
  -- biased exponent of a normal result
  let be : Int := 52 - s + 1023
  if be ≤ 0 then
    -- subnormal (or rounds up to the smallest normal): q = round(v · 2^1074)
    (roundScaled num den 1074).toUInt64
  else packNormal (roundScaled num den s) be

/-- bits of the binary64 nearest to `m · 10^e` (ties to even), as `f64::from_str` returns -/
def decimalToBits (m : Nat) (e : Int) : UInt64 :=
  if m = 0 then 0 else
  let nd : Int := decDigits m
  if nd + e > 310 then 0x7FF0000000000000 else
  if nd + e < -330 then 0 else
  ratToBits (if e ≥ 0 then m * pow10 e.toNat else m) (if e ≥ 0 then 1 else pow10 (-e).toNat)

/-- `10^p ≤ num/den` -/
def geP10 (num den : Nat) (p : Int) : Bool :=
  if p ≥ 0 then pow10 p.toNat * den ≤ num else den ≤ num * pow10 (-p).toNat

/-- floor(log10(num/den)) for a positive rational: an under-estimate from the bit lengths, then
    up to eight corrections upwards -/
def floorLog10 (num den : Nat) : Int :=
  let est : Int := (((Nat.log2 num : Int) - (Nat.log2 den : Int)) * 30103) / 100000 - 2
  (List.range 8).foldl (fun p _ => if geP10 num den (p + 1) then p + 1 else p) est

/-- a positive finite double as exact fractions over the common denominator `D`, in units of a
    quarter ulp: the value `vn/D`, the midpoints `ln/D`, `hn/D` to its two neighbours, whether the
    midpoints themselves round to it (even significand), and `p = ⌊log10 value⌋` -/
structure SDCtx where
  vn : Nat
  hn : Nat
  ln : Nat
  D : Nat
  incl : Bool
  p : Int

def sdCtx (bits : UInt64) : SDCtx :=
  let e := ((bits >>> 52) &&& 0x7FF).toNat
  let frac := (bits &&& 0xFFFFFFFFFFFFF).toNat
  let m : Nat := if e = 0 then frac else 2 ^ 52 + frac
  let ex : Int := if e = 0 then -1074 else (e : Int) - 1075
  let boundary : Bool := frac = 0 && e > 1
  let u : Nat := if ex - 2 ≥ 0 then 2 ^ (ex - 2).toNat else 1
  let D : Nat := if ex - 2 ≥ 0 then 1 else 2 ^ (2 - ex).toNat
  let vn := 4 * m * u
  { vn := vn, hn := vn + 2 * u, ln := vn - (if boundary then u else 2 * u), D := D,
    incl := decide (m % 2 = 0), p := floorLog10 vn D }

/-- is `c · scaleN / scaleD` inside the rounding interval? (compare `c·scaleN·D / scaleD` with `ln`, `hn`) -/
def sdInside (x : SDCtx) (scaleN scaleD c : Nat) : Bool :=
  let y := c * scaleN * x.D
  if x.incl then x.ln * scaleD ≤ y && y ≤ x.hn * scaleD else x.ln * scaleD < y && y < x.hn * scaleD

/-- `|c · scaleN / scaleD − value|` in units of `1/(D·scaleD)` -/
def sdDist (x : SDCtx) (scaleN scaleD c : Nat) : Nat :=
  let y := c * scaleN * x.D
  let v := x.vn * scaleD
  if y ≥ v then y - v else v - y

/-- the candidate at decimal exponent `k` (with `scaleN/scaleD = 10^k`), if one of the two multiples
    of `10^k` bracketing the value lies in the rounding interval -/
def sdCandAt (x : SDCtx) (k : Int) (scaleN scaleD : Nat) : Option (Nat × Int) :=
  -- c_lo = floor(v / 10^k) = floor(vn·scaleD / (D·scaleN))
  let clo := (x.vn * scaleD) / (x.D * scaleN)
  let okLo := clo > 0 && sdInside x scaleN scaleD clo
  let okHi := sdInside x scaleN scaleD (clo + 1)
  if okLo && okHi then
    -- a tie goes up, as in core::num::flt2dec
    some (if sdDist x scaleN scaleD clo < sdDist x scaleN scaleD (clo + 1) then clo else clo + 1, k)
  else if okLo then some (clo, k)
  else if okHi then some (clo + 1, k)
  else none

/-- the candidate with `n` significant digits -/
def sdCand (x : SDCtx) (n : Nat) : Option (Nat × Int) :=
  let k : Int := x.p - ((n : Int) - 1)
  sdCandAt x k (if k ≥ 0 then pow10 k.toNat else 1) (if k ≥ 0 then 1 else pow10 (-k).toNat)

/-- strip trailing zeros (at most `fuel` of them) -/
def stripZeros : Nat → Nat → Int → Nat × Int
  | 0, c, k => (c, k)
  | fuel + 1, c, k => if c ≠ 0 && c % 10 = 0 then stripZeros fuel (c / 10) (k + 1) else (c, k)

/-- the first digit count `1 … 17` with a candidate -/
def sdSearch (x : SDCtx) : Option (Nat × Int) := (List.range' 1 17).findSome? (sdCand x)

/-- shortest decimal `(digits, k)` with value `digits · 10^k` that rounds to the given positive
    finite double, closest to it among the shortest -/
def shortestDigits (bits : UInt64) : Nat × Int :=
  match sdSearch (sdCtx bits) with
  | some (c, k) => stripZeros 20 c k
  | none => (0, 0)

/-- the positional text (no exponent form) of `c · 10^k`, `c` written with `Nat.toDigits 10` -/
def fmtDigits (c : Nat) (k : Int) : List Char :=
  let ds := Nat.toDigits 10 c
  if k ≥ 0 then ds ++ List.replicate k.toNat '0'
  else
    let nfrac := (-k).toNat
    if ds.length > nfrac then
      ds.take (ds.length - nfrac) ++ '.' :: ds.drop (ds.length - nfrac)
    else '0' :: '.' :: (List.replicate (nfrac - ds.length) '0' ++ ds)

/-- `format!("{}", x)` for an `f64` given by its bits -/
def fmtBits (bits : UInt64) : String :=
  let neg := (bits >>> 63) = 1
  let mag := bits &&& 0x7FFFFFFFFFFFFFFF
  if mag > 0x7FF0000000000000 then "NaN"
  else
    let sign := if neg then "-" else ""
    if mag = 0x7FF0000000000000 then sign ++ "inf"
    else if mag = 0 then sign ++ "0"
    else sign ++ String.ofList (fmtDigits (shortestDigits mag).1 (shortestDigits mag).2)

end Calc.Exec
