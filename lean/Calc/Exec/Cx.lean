/-
  Calc.Exec.Cx — the executable kernel: pairs of `Float` with the formulas of num-complex 0.4.6
  (the crate pinned by /repo/Cargo.lock), Rust's `f64` methods mapped to the same glibc libm.
  Used only by the correspondence driver; occurs in no theorem.
-/
import Calc.Model.Kernel
import Calc.Exec.FloatFmt
namespace Calc.Exec

@[extern "hypot"] opaque cHypot : Float → Float → Float
@[extern "fmod"] opaque cFmod : Float → Float → Float
@[extern "trunc"] opaque cTrunc : Float → Float
@[extern "copysign"] opaque cCopysign : Float → Float → Float

structure Cx where
  re : Float
  im : Float
  deriving Inhabited

namespace Cx

def fInf : Float := Float.ofBits 0x7FF0000000000000
def fNaN : Float := Float.ofBits 0x7FF8000000000000
/-- `f64::is_sign_positive` (true sign bit, also of a NaN; `Float.toBits` canonicalises NaNs) -/
def signPos (x : Float) : Bool := cCopysign 1.0 x > 0.0
def isInfinite (x : Float) : Bool := x.isInf
def isFinite (x : Float) : Bool := x.isFinite

def mk' (re im : Float) : Cx := ⟨re, im⟩
def zero : Cx := ⟨0.0, 0.0⟩
def one : Cx := ⟨1.0, 0.0⟩
def two : Cx := ⟨2.0, 0.0⟩
def I : Cx := ⟨0.0, 1.0⟩

def add (a b : Cx) : Cx := ⟨a.re + b.re, a.im + b.im⟩
def sub (a b : Cx) : Cx := ⟨a.re - b.re, a.im - b.im⟩
def mul (a b : Cx) : Cx := ⟨a.re * b.re - a.im * b.im, a.re * b.im + a.im * b.re⟩
def div (a b : Cx) : Cx :=
  let ns := b.re * b.re + b.im * b.im
  ⟨(a.re * b.re + a.im * b.im) / ns, (a.im * b.re - a.re * b.im) / ns⟩
def neg (a : Cx) : Cx := ⟨-a.re, -a.im⟩
def unscale (a : Cx) (t : Float) : Cx := ⟨a.re / t, a.im / t⟩

instance : Add Cx := ⟨add⟩
instance : Sub Cx := ⟨sub⟩
instance : Mul Cx := ⟨mul⟩
instance : Div Cx := ⟨div⟩
instance : Zero Cx := ⟨zero⟩
instance : One Cx := ⟨one⟩

def beq (a b : Cx) : Bool := a.re == b.re && a.im == b.im
def isZero (a : Cx) : Bool := a.re == 0.0 && a.im == 0.0
def norm (a : Cx) : Float := cHypot a.re a.im
def arg (a : Cx) : Float := Float.atan2 a.im a.re
def fromPolar (r t : Float) : Cx := ⟨r * Float.cos t, r * Float.sin t⟩

def exp (z : Cx) : Cx :=
  let re := z.re
  let im := z.im
  if isInfinite re then
    if re < 0.0 then
      if !isFinite im then ⟨0.0, 0.0⟩ else fromPolar (Float.exp re) im
    else if im == 0.0 || !isFinite im then
      ⟨re, if isInfinite im then fNaN else im⟩
    else fromPolar (Float.exp re) im
  else if re.isNaN && im == 0.0 then z
  else fromPolar (Float.exp re) im

def ln (z : Cx) : Cx := ⟨Float.log (norm z), arg z⟩

def sqrt (z : Cx) : Cx :=
  if z.im == 0.0 then
    if signPos z.re then ⟨Float.sqrt z.re, z.im⟩
    else
      let im := Float.sqrt (-z.re)
      if signPos z.im then ⟨0.0, im⟩ else ⟨0.0, -im⟩
  else if z.re == 0.0 then
    let x := Float.sqrt (Float.abs z.im / 2.0)
    if signPos z.im then ⟨x, x⟩ else ⟨x, -x⟩
  else fromPolar (Float.sqrt (norm z)) (arg z / 2.0)

def powc (z w : Cx) : Cx := if isZero w then one else exp (mul w (ln z))

def rem (a m : Cx) : Cx :=
  let q := div a m
  let g : Cx := ⟨q.re - cFmod q.re 1.0, q.im - cFmod q.im 1.0⟩
  sub a (mul m g)

def sin (z : Cx) : Cx := ⟨Float.sin z.re * Float.cosh z.im, Float.cos z.re * Float.sinh z.im⟩
def cos (z : Cx) : Cx := ⟨Float.cos z.re * Float.cosh z.im, (-(Float.sin z.re)) * Float.sinh z.im⟩
def tan (z : Cx) : Cx :=
  let a := z.re + z.re
  let b := z.im + z.im
  unscale ⟨Float.sin a, Float.sinh b⟩ (Float.cos a + Float.cosh b)
def asin (z : Cx) : Cx := mul (neg I) (ln (add (sqrt (sub one (mul z z))) (mul I z)))
def acos (z : Cx) : Cx := mul (neg I) (ln (add (mul I (sqrt (sub one (mul z z)))) z))
def atan (z : Cx) : Cx :=
  if beq z I then ⟨0.0, fInf⟩
  else if beq z (neg I) then ⟨0.0, -fInf⟩
  else div (sub (ln (add one (mul I z))) (ln (sub one (mul I z)))) (mul two I)
def sinh (z : Cx) : Cx := ⟨Float.sinh z.re * Float.cos z.im, Float.cosh z.re * Float.sin z.im⟩
def cosh (z : Cx) : Cx := ⟨Float.cosh z.re * Float.cos z.im, Float.sinh z.re * Float.sin z.im⟩
def tanh (z : Cx) : Cx :=
  let a := z.re + z.re
  let b := z.im + z.im
  unscale ⟨Float.sinh a, Float.sin b⟩ (Float.cosh a + Float.cos b)
def asinh (z : Cx) : Cx := ln (add z (sqrt (add one (mul z z))))
def acosh (z : Cx) : Cx :=
  mul two (ln (add (sqrt (div (add z one) two)) (sqrt (div (sub z one) two))))
def atanh (z : Cx) : Cx :=
  if beq z one then ⟨fInf, 0.0⟩
  else if beq z (neg one) then ⟨-fInf, 0.0⟩
  else div (sub (ln (add one z)) (ln (sub one z))) two

def ln2 : Float := Float.ofBits 0x3FE62E42FEFA39EF
def ln10 : Float := Float.ofBits 0x40026BB1BBB55516

/-- integer Euclid on integer-valued doubles (`%` is exact) -/
def gcdF (a b : Float) : Float := Id.run do
  let mut a := Float.abs a
  let mut b := Float.abs b
  for _ in [0:4000] do
    if b != 0.0 then
      let r := cFmod a b
      a := b
      b := r
  return a

def lcmF (a b : Float) : Float :=
  if a == 0.0 || b == 0.0 then 0.0 else Float.abs (a * (b / gcdF a b))

def fract (x : Float) : Float := x - cTrunc x

def fmtF (x : Float) : Calc.Str := (fmtBits x.toBits).toList

instance : Calc.Kernel Cx where
  negOne := ⟨-1.0, 0.0⟩
  i := I
  inf := ⟨fInf, 0.0⟩
  ofNat n := ⟨Float.ofNat n, 0.0⟩
  ofDecimal m e := ⟨Float.ofBits (decimalToBits m e), 0.0⟩
  ofRatio a b := ⟨Float.ofNat a / Float.ofNat b, 0.0⟩
  ofBits r i := ⟨Float.ofBits r.toUInt64, Float.ofBits i.toUInt64⟩
  eq := beq
  normIsZero z := norm z == 0.0
  reIsZero z := z.re == 0.0
  imIsZero z := z.im == 0.0
  imIsOne z := z.im == 1.0
  imIsNegOne z := z.im == -1.0
  imIsNeg z := z.im < 0.0
  reFractIsZero z := fract z.re == 0.0
  reNonneg z := z.re >= 0.0
  rePos z := z.re > 0.0
  reToNat z := z.re.toUInt64.toNat
  mulRe z w := ⟨z.re * w.re, z.im * w.re⟩
  powc := powc
  rem := rem
  sqrt := sqrt
  norm z := ⟨norm z, 0.0⟩
  normSqr z := ⟨z.re * z.re + z.im * z.im, 0.0⟩
  ceilRe z := ⟨Float.ceil z.re, 0.0⟩
  floorRe z := ⟨Float.floor z.re, 0.0⟩
  fmtRe z := fmtF z.re
  fmtIm z := fmtF z.im
  fmtAbsIm z := fmtF (Float.abs z.im)
  sin := sin
  cos := cos
  tan := tan
  asin := asin
  acos := acos
  atan := atan
  sinh := sinh
  cosh := cosh
  tanh := tanh
  asinh := asinh
  acosh := acosh
  atanh := atanh
  reS z := ⟨z.re, 0.0⟩
  imS z := ⟨z.im, 0.0⟩
  argS z := ⟨arg z, 0.0⟩
  conj z := ⟨z.re, -z.im⟩
  ln := ln
  log2 z := unscale (ln z) ln2
  log10 z := unscale (ln z) ln10
  logBase b v := ⟨Float.log (norm v) / Float.log b.re, arg v / Float.log b.re⟩
  gcd a b := ⟨gcdF a.re b.re, 0.0⟩
  lcm a b := ⟨lcmF a.re b.re, 0.0⟩

end Cx
end Calc.Exec
