/-
  Calc.Exec.Cx — the executable kernel: `Cx = CxOf Float`, i.e. the formulas of num-complex 0.4.6
  written once in Calc/Model/CxGeneric.lean, instantiated at IEEE doubles (`RealOps Float`), Rust's
  `f64` methods mapped to the same glibc libm.
  Used only by the correspondence driver; occurs in no theorem.  The same generic formulas,
  instantiated at ℝ, are proved to compute the mathematical functions in Calc/Proofs/CxReal.lean.
-/
import Calc.Model.Kernel
import Calc.Model.CxGeneric
import Calc.Exec.FloatFmt
namespace Calc.Exec

@[extern "hypot"] opaque cHypot : Float → Float → Float
@[extern "fmod"] opaque cFmod : Float → Float → Float
@[extern "trunc"] opaque cTrunc : Float → Float
@[extern "copysign"] opaque cCopysign : Float → Float → Float

def fInf : Float := Float.ofBits 0x7FF0000000000000
def fNaN : Float := Float.ofBits 0x7FF8000000000000
/-- `f64::is_sign_positive` (true sign bit, also of a NaN; `Float.toBits` canonicalises NaNs) -/
def fSignPos (x : Float) : Bool := cCopysign 1.0 x > 0.0
/-- `std::f64::consts::LN_2` -/
def fLn2 : Float := Float.ofBits 0x3FE62E42FEFA39EF
/-- `std::f64::consts::LN_10` -/
def fLn10 : Float := Float.ofBits 0x40026BB1BBB55516

/-- IEEE doubles with Rust's `f64` methods -/
instance : RealOps Float where
  add := Float.add
  sub := Float.sub
  mul := Float.mul
  div := Float.div
  neg := Float.neg
  zero := 0.0
  one := 1.0
  two := 2.0
  inf := fInf
  nan := fNaN
  ln2 := fLn2
  ln10 := fLn10
  sqrt := Float.sqrt
  exp := Float.exp
  log := Float.log
  sin := Float.sin
  cos := Float.cos
  sinh := Float.sinh
  cosh := Float.cosh
  atan2 := Float.atan2
  hypot := cHypot
  abs := Float.abs
  fmod1 x := cFmod x 1.0
  isZero x := x == 0.0
  signPos := fSignPos
  isInfinite x := x.isInf
  isFinite x := x.isFinite
  isNaN x := x.isNaN
  lt x y := x < y
  beq x y := x == y

/-- `Complex64` -/
abbrev Cx : Type := CxOf Float

namespace Cx

/-- integer Euclid on integer-valued doubles (`%` is exact) -/
def gcdF (a b : Float) : Float := Id.run do
  let mut a := Float.abs a
  let mut b := Float.abs b
  for _ in [0:4000] do
    if b != 0.0 then
      let r := cFmod a b
      a := b
      b := r
  return a

def lcmF (a b : Float) : Float :=
  if a == 0.0 || b == 0.0 then 0.0 else Float.abs (a * (b / gcdF a b))

def fract (x : Float) : Float := x - cTrunc x

def fmtF (x : Float) : Calc.Str := (fmtBits x.toBits).toList

instance : Calc.Kernel Cx where
  negOne := ⟨-1.0, 0.0⟩
  i := CxOf.I
  inf := ⟨fInf, 0.0⟩
  ofNat n := ⟨Float.ofNat n, 0.0⟩
  ofDecimal m e := ⟨Float.ofBits (decimalToBits m e), 0.0⟩
  ofRatio a b := ⟨Float.ofNat a / Float.ofNat b, 0.0⟩
  ofBits r i := ⟨Float.ofBits r.toUInt64, Float.ofBits i.toUInt64⟩
  eq := CxOf.beq
  normIsZero := CxOf.normIsZero
  reIsZero z := z.re == 0.0
  imIsZero z := z.im == 0.0
  imIsOne z := z.im == 1.0
  imIsNegOne z := z.im == -1.0
  imIsNeg z := z.im < 0.0
  reFractIsZero z := fract z.re == 0.0
  reNonneg z := z.re >= 0.0
  rePos z := z.re > 0.0
  reToNat z := z.re.toUInt64.toNat
  mulRe := CxOf.mulRe
  powc := CxOf.powc
  rem := CxOf.rem
  sqrt := CxOf.sqrt
  norm := CxOf.normS
  normSqr := CxOf.normSqr
  ceilRe z := ⟨Float.ceil z.re, 0.0⟩
  floorRe z := ⟨Float.floor z.re, 0.0⟩
  fmtRe z := fmtF z.re
  fmtIm z := fmtF z.im
  fmtAbsIm z := fmtF (Float.abs z.im)
  sin := CxOf.sin
  cos := CxOf.cos
  tan := CxOf.tan
  asin := CxOf.asin
  acos := CxOf.acos
  atan := CxOf.atan
  sinh := CxOf.sinh
  cosh := CxOf.cosh
  tanh := CxOf.tanh
  asinh := CxOf.asinh
  acosh := CxOf.acosh
  atanh := CxOf.atanh
  reS := CxOf.reS
  imS := CxOf.imS
  argS := CxOf.argS
  conj := CxOf.conj
  ln := CxOf.ln
  log2 := CxOf.log2
  log10 := CxOf.log10
  logBase := CxOf.logBase
  gcd a b := ⟨gcdF a.re b.re, 0.0⟩
  lcm a b := ⟨lcmF a.re b.re, 0.0⟩

end Cx
end Calc.Exec
