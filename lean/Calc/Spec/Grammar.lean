/-
  Calc.Spec.Grammar — the documented grammar of the calculator (parser.rs:1-53) as a
  declarative, level-stratified derivation relation over token lists.  Core Lean only.

  Precedence, loosest first:

      expr     ::= term ( "as" UNIT )?
      term     ::= term   ("+" | "-")       factor   | factor       -- left associative
      factor   ::= factor ("*" | "/" | "%") dot      | dot          -- left associative
      dot      ::= dot    "dot"             cross    | cross        -- left associative
      cross    ::= cross  "cross"           expo     | expo         -- left associative
      expo     ::= unary  "^"               expo     | unary        -- RIGHT associative
      unary    ::= ("-" | "√") unary                 | fact         -- prefix
      fact     ::= fact "!"                          | call         -- postfix
      call     ::= call "(" args? ")"                | primary
      primary  ::= NUMBER | NUMBER UNIT | IDENT
                 | "(" expr ")" | "|" expr "|" | "⌈" expr "⌉" | "⌊" expr "⌋"
                 | "[" row ( ";" row )* "]"            -- all rows of equal length
      args, row ::= expr ( "," expr )*

  `Derives l c e` : the token list `c` is a phrase of level `l`, read as the tree `e`.
  Every node stores exactly the token the parser stores: the operator token in `binary` and
  `unary`, the `as` token in `as_`, the OPENING token in `grouping`, the `(` in `call`, the
  CLOSING `]` in `matrix`, the identifier token in `ident`.
-/
import Calc.Model.Basic
namespace Calc

inductive Level
  | expr | term | factor | dot | cross | expo | unary | fact | call | primary
  deriving DecidableEq, Repr

/-- the next tighter level -/
def Level.next : Level → Option Level
  | .expr => some .term | .term => some .factor | .factor => some .dot | .dot => some .cross
  | .cross => some .expo | .expo => some .unary | .unary => some .fact | .fact => some .call
  | .call => some .primary | .primary => none

/-- the left-associative binary operators of each level -/
def Level.leftOp : Level → Tag → Bool
  | .term, t => t = .plus || t = .minus
  | .factor, t => t = .star || t = .slash || t = .percent
  | .dot, t => t = .dot
  | .cross, t => t = .cross
  | _, _ => false

/-- the opening token of each grouping kind -/
def groupOpen : GKind → Tag
  | .grouping => .lparen | .absolute => .pipe | .ceil => .lceil | .floor => .lfloor

/-- the closing token of each grouping kind -/
def groupShut : GKind → Tag
  | .grouping => .rparen | .absolute => .pipe | .ceil => .rceil | .floor => .rfloor

/-- all rows of a matrix literal have the same number of entries -/
def Uniform {α : Type} (rows : List (List α)) : Prop :=
  ∀ a ∈ rows, ∀ b ∈ rows, a.length = b.length

variable {S : Type}

mutual
inductive Derives : Level → List (Tok S) → Expr S → Prop
  /-- a phrase of a tighter level is a phrase of the next looser level -/
  | incl {l l' c e} : l.next = some l' → Derives l' c e → Derives l c e
  /-- `expr ::= term "as" UNIT` -/
  | as_ {c e} {a u : Tok S} {un} : Derives .term c e → a.tag = .as_ → u.kind = .unit un →
      Derives .expr (c ++ [a, u]) (.as_ e a un)
  /-- `l ::= l op l.next` for the four left-associative levels -/
  | binl {l l' c₁ c₂ a b} {op : Tok S} : l.next = some l' → l.leftOp op.tag = true →
      Derives l c₁ a → Derives l' c₂ b → Derives l (c₁ ++ op :: c₂) (.binary a op b)
  /-- `expo ::= unary "^" expo` -/
  | pow {c₁ c₂ a b} {op : Tok S} : op.tag = .caret →
      Derives .unary c₁ a → Derives .expo c₂ b → Derives .expo (c₁ ++ op :: c₂) (.binary a op b)
  /-- `unary ::= ("-" | "√") unary` -/
  | pre {c x} {op : Tok S} : op.tag = .minus ∨ op.tag = .sqrt →
      Derives .unary c x → Derives .unary (op :: c) (.unary op x)
  /-- `fact ::= fact "!"` -/
  | post {c x} {op : Tok S} : op.tag = .bang →
      Derives .fact c x → Derives .fact (c ++ [op]) (.unary op x)
  /-- `call ::= call "(" ")"` -/
  | call0 {c fn} {lp rp : Tok S} : lp.tag = .lparen → rp.tag = .rparen →
      Derives .call c fn → Derives .call (c ++ [lp, rp]) (.call fn lp [])
  /-- `call ::= call "(" args ")"` -/
  | call {c ca fn args} {lp rp : Tok S} : lp.tag = .lparen → rp.tag = .rparen →
      Derives .call c fn → DerivesArgs ca args →
      Derives .call (c ++ lp :: ca ++ [rp]) (.call fn lp args)
  /-- `primary ::= NUMBER` -/
  | number {t : Tok S} {z} : t.kind = .number z → Derives .primary [t] (.number z)
  /-- `primary ::= NUMBER UNIT` -/
  | measurement {t u : Tok S} {z un} : t.kind = .number z → u.kind = .unit un →
      Derives .primary [t, u] (.measurement z un)
  /-- `primary ::= IDENT` -/
  | ident {t : Tok S} {name} : t.kind = .ident name → Derives .primary [t] (.ident t)
  /-- `primary ::= "(" expr ")" | "|" expr "|" | "⌈" expr "⌉" | "⌊" expr "⌋"` -/
  | group {c e k} {o s : Tok S} : o.tag = groupOpen k → s.tag = groupShut k →
      Derives .expr c e → Derives .primary (o :: c ++ [s]) (.grouping o k e)
  /-- `primary ::= "[" row (";" row)* "]"`, all rows of equal length -/
  | matrix {c rows} {o s : Tok S} : o.tag = .lbracket → s.tag = .rbracket →
      DerivesRows c rows → Uniform rows → Derives .primary (o :: c ++ [s]) (.matrix s rows)

/-- `args ::= expr ("," expr)*` (never empty) -/
inductive DerivesArgs : List (Tok S) → List (Expr S) → Prop
  | one {c e} : Derives .expr c e → DerivesArgs c [e]
  | cons {c e cs es} {comma : Tok S} : Derives .expr c e → comma.tag = .comma →
      DerivesArgs cs es → DerivesArgs (c ++ comma :: cs) (e :: es)

/-- `rows ::= args (";" args)*` (never empty) -/
inductive DerivesRows : List (Tok S) → List (List (Expr S)) → Prop
  | one {c row} : DerivesArgs c row → DerivesRows c [row]
  | cons {c row cs rows} {semi : Tok S} : DerivesArgs c row → semi.tag = .semicolon →
      DerivesRows cs rows → DerivesRows (c ++ semi :: cs) (row :: rows)
end

/-- a statement delimiter -/
def Tok.isDelim (t : Tok S) : Prop := t.tag = .newline ∨ t.tag = .semicolon

/-- parameters of a function signature: each argument of the call on the left of `=` is an
    identifier or a number literal (function.rs:112-131) -/
inductive DerivesParams : List (Expr S) → List (Param S) → Prop
  | nil : DerivesParams [] []
  | ident {name : Tok S} {es ps} : DerivesParams es ps →
      DerivesParams (.ident name :: es) (.ident name.lexeme :: ps)
  | number {z : S} {es ps} : DerivesParams es ps →
      DerivesParams (.number z :: es) (.number z :: ps)

/-- the statement forms, each WITHOUT its terminating delimiter:
      stmt ::= "clear" | "delete" IDENT | "delete" IDENT "(" params ")"
             | IDENT "=" expr | IDENT "(" params ")" "=" expr | expr                      -/
inductive DerivesStmt : List (Tok S) → Stmt S → Prop
  | clear {t : Tok S} : t.tag = .clear → DerivesStmt [t] .clear
  | deleteVar {d name : Tok S} {n} : d.tag = .delete → name.kind = .ident n →
      DerivesStmt [d, name] (.deleteVar name)
  | deleteSig {d name lp : Tok S} {c args ps} : d.tag = .delete →
      Derives .expr c (.call (.ident name) lp args) → DerivesParams args ps →
      DerivesStmt (d :: c) (.deleteSig name ⟨ps⟩)
  | assign {name eq : Tok S} {n c e} : name.kind = .ident n → eq.tag = .equal →
      Derives .expr c e → DerivesStmt (name :: eq :: c) (.assign name e)
  | define {name lp eq : Tok S} {c₁ c₂ args ps body} :
      Derives .expr c₁ (.call (.ident name) lp args) → DerivesParams args ps → eq.tag = .equal →
      Derives .expr c₂ body → DerivesStmt (c₁ ++ eq :: c₂) (.define name ⟨ps⟩ body)
  | expr {c e} : Derives .expr c e → DerivesStmt c (.expr e)

/-- a program: statements, each terminated by a delimiter; extra delimiters anywhere between
    statements are ignored:   program ::= ( delim | stmt delim )*                         -/
inductive DerivesProgram : List (Tok S) → List (Stmt S) → Prop
  | nil : DerivesProgram [] []
  | skip {d : Tok S} {ts ss} : d.isDelim → DerivesProgram ts ss → DerivesProgram (d :: ts) ss
  | stmt {c s ts ss} {d : Tok S} : DerivesStmt c s → d.isDelim → DerivesProgram ts ss →
      DerivesProgram (c ++ d :: ts) (s :: ss)

end Calc
