/-
  Calc.Spec.Reader — an independent *reader* of printed results (specification side of C15).

  The printer (`Calc.complexToString`, value/mod.rs:63-88) is not mentioned here.  The reader is
  written from the documented shapes of a printed number

      <re>      <im>i      <re> + <im>i      <re> - <|im|>i      <re> + i      <re> - i
      i         -i         0

  where `<x>` is the text of one real number.  How one real is read is a parameter (`read`), exactly
  as how one real is printed is a parameter of the model (`Kernel.fmtRe …`).  The texts of reals
  contain no blank, so the text is split at its FIRST blank.

  Also here: the lexical classes "a real's text ends like this" / "a number's text ends like this"
  that make the split `number text ++ unit symbol` of a printed measurement unique, and the
  reader of a printed matrix (`unformat`).
-/
import Calc.Model.Kernel
namespace Calc.Spec
open Calc

/-! ## numbers -/

section
variable {R : Type} [Zero R] [One R] [Neg R]

/-- the text after the sign of a two-part number: `i` is one, `<x>i` is `x` -/
def readImag (read : Str → Option R) (b : Str) : Option R :=
  if b = ['i'] then some 1
  else if b.getLast? = some 'i' then read b.dropLast
  else none

/-- a text without blank: `i`, `-i`, `<x>i` (purely imaginary) or `<x>` (real) -/
def readWord (read : Str → Option R) (a : Str) : Option (R × R) :=
  if a = ['i'] then some (0, 1)
  else if a = ['-', 'i'] then some (0, -1)
  else if a.getLast? = some 'i' then (read a.dropLast).map fun y => (0, y)
  else (read a).map fun x => (x, 0)

/-- read a printed complex number as the pair (real part, imaginary part) -/
def readComplex (read : Str → Option R) (s : Str) : Option (R × R) :=
  let a := s.takeWhile (· ≠ ' ')
  match s.dropWhile (· ≠ ' ') with
  | [] => readWord read a
  | ' ' :: '+' :: ' ' :: b =>
    match read a, readImag read b with
    | some x, some y => some (x, y)
    | _, _ => none
  | ' ' :: '-' :: ' ' :: b =>
    match read a, readImag read b with
    | some x, some y => some (x, -y)
    | _, _ => none
  | _ => none

end

/-! ## how number texts end -/

/-- `'0'..'9'` -/
def isDigitCh (c : Char) : Bool := '0' ≤ c && c ≤ '9'

/-- `realTextEnd` on the reversed text (last character first) -/
def realEndRev : Str → Bool
  | 'f' :: 'n' :: 'i' :: _ => true
  | 'N' :: 'a' :: 'N' :: _ => true
  | c :: _ => isDigitCh c
  | [] => false

/-- a real's text ends with a digit, or is/ends with `inf` or `NaN` (Rust `Display for f64`) -/
def realTextEnd (s : Str) : Bool := realEndRev s.reverse

/-- `numTextEnd` on the reversed text (last character first) -/
def numEndRev : Str → Bool
  | ')' :: _ => true
  | ['i'] => true
  | 'i' :: c :: r => c = ' ' || c = '-' || realEndRev (c :: r)
  | l => realEndRev l

/-- a printed number (as it stands in front of a unit symbol) ends with a digit, `inf`, `NaN`,
    a closing parenthesis, or with an `i` that is the whole text or follows a digit, `inf`, `NaN`,
    a blank or a minus sign -/
def numTextEnd (s : Str) : Bool := numEndRev s.reverse

/-! ## the hypothesis on the formatter of reals -/

/-- What the theorems of C15 assume about the kernel's formatter of reals (`Kernel.fmtRe`,
    `fmtIm`, `fmtAbsIm` — Rust's `Display for f64`) and about the kernel's tests on the parts of a
    scalar: a scalar has a real and an imaginary part in some type `R` of reals, the tests are
    tests on those parts, the three formatters print those parts with one printer `fmt` of reals,
    and `fmt` has a left inverse `read`, prints no blank, and ends like a real's text.
    It is a hypothesis, not an axiom; `Calc.Proofs.PrintExample` constructs an instance. -/
structure FmtSpec (S R : Type) [Kernel S] [Zero R] [One R] [Neg R] where
  re : S → R
  im : S → R
  fmt : R → Str
  read : Str → Option R
  isZero : R → Bool
  isNeg : R → Bool
  abs : R → R
  reIsZero_eq : ∀ z : S, Kernel.reIsZero z = isZero (re z)
  imIsZero_eq : ∀ z : S, Kernel.imIsZero z = isZero (im z)
  imIsOne_iff : ∀ z : S, Kernel.imIsOne z = true ↔ im z = 1
  imIsNegOne_iff : ∀ z : S, Kernel.imIsNegOne z = true ↔ im z = -1
  imIsNeg_eq : ∀ z : S, Kernel.imIsNeg z = isNeg (im z)
  fmtRe_eq : ∀ z : S, Kernel.fmtRe z = fmt (re z)
  fmtIm_eq : ∀ z : S, Kernel.fmtIm z = fmt (im z)
  fmtAbsIm_eq : ∀ z : S, Kernel.fmtAbsIm z = fmt (abs (im z))
  /-- zero passes the zero test and is what the text `0` reads as -/
  isZero_zero : isZero 0 = true
  read_zero : read ['0'] = some 0
  /-- a negative real is the negation of its absolute value -/
  neg_abs : ∀ x : R, isNeg x = true → -(abs x) = x
  /-- reading a printed real gives that real -/
  read_fmt : ∀ x : R, read (fmt x) = some x
  /-- a printed real contains no blank and ends with a digit, `inf` or `NaN` -/
  fmt_noblank : ∀ x : R, ' ' ∉ fmt x
  fmt_end : ∀ x : R, realTextEnd (fmt x) = true

/-- two reals are the same up to the zero test (`0` and `-0` both print as nothing / as `0`) -/
def FmtSpec.same {S R : Type} [Kernel S] [Zero R] [One R] [Neg R] (F : FmtSpec S R) (a b : R) : Prop :=
  a = b ∨ (F.isZero a = true ∧ F.isZero b = true)

/-! ## matrices -/

/-- split at every occurrence of the character `sep` -/
def splitOnChar (sep : Char) : Str → List Str
  | [] => [[]]
  | c :: cs =>
    if c = sep then [] :: splitOnChar sep cs
    else match splitOnChar sep cs with
      | [] => [[c]]
      | w :: ws => (c :: w) :: ws

/-- one cell: drop the blanks in front (the blank after the comma and the padding) -/
def trimLeft (s : Str) : Str := s.dropWhile (· = ' ')

/-- one line: cells are separated by commas -/
def unformatRow (line : Str) : List Str := (splitOnChar ',' line).map trimLeft

/-- read a printed matrix back as its rows of cell texts: strip `[` and `]`, one row per line,
    cells separated by `,`, blanks in front of a cell dropped -/
def unformat (s : Str) : List (List Str) :=
  match s with
  | '[' :: rest =>
    if rest = [']'] then []
    else (splitOnChar '\n' rest.dropLast).map unformatRow
  | _ => []

end Calc.Spec
