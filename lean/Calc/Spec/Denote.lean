/-
  Calc.Spec.Denote — what a number expression *means*: the specification side of C02.

  `NExpr` is the syntax of number expressions (literals, variables, `+ - * / % ^`, unary minus,
  `√`, `!`, and the bracket pairs `( ) | | ⌈ ⌉ ⌊ ⌋`), each operator carrying the token it was
  written with (for the position of a refusal).  `NExpr.toExpr` is the tree the parser builds for
  it.  `denote` assigns it its mathematical value in ℂ, written directly with Mathlib — the numeric
  kernel (`Calc.Kernel`) and the evaluator (`Calc.eval`) are not mentioned in this file.

  Refusals (README, "operators" and "errors"): division or remainder by zero, factorial of a
  non-natural, ceiling or floor of a non-real, an unknown variable.  Operands are evaluated left
  to right; the first refusal is the refusal of the whole expression.
-/
import Mathlib.Analysis.SpecialFunctions.Pow.Complex
import Mathlib.Algebra.Order.Floor.Ring
import Mathlib.Data.Nat.Factorial.Basic
import Mathlib.Data.Complex.Basic
import Calc.Model.Basic

namespace Calc.Spec
open Complex

/-! ## Syntax -/

inductive BinOp | add | sub | mul | div | rem | pow
  deriving DecidableEq, Repr, Inhabited

/-- prefix `-`, prefix `√`, postfix `!` -/
inductive UnOp | neg | root | fact
  deriving DecidableEq, Repr, Inhabited

/-- `( )`, `| |`, `⌈ ⌉`, `⌊ ⌋` -/
inductive Grp | paren | abs | ceil | floor
  deriving DecidableEq, Repr, Inhabited

/-- the token each operator is written with -/
def BinOp.tag : BinOp → Tag
  | .add => .plus | .sub => .minus | .mul => .star | .div => .slash | .rem => .percent | .pow => .caret

def UnOp.tag : UnOp → Tag
  | .neg => .minus | .root => .sqrt | .fact => .bang

/-- the opening bracket (the token the parser keeps in the tree) -/
def Grp.tag : Grp → Tag
  | .paren => .lparen | .abs => .pipe | .ceil => .lceil | .floor => .lfloor

def Grp.kind : Grp → GKind
  | .paren => .grouping | .abs => .absolute | .ceil => .ceil | .floor => .floor

/-- Number expressions.  Every operator node carries its token and the fact that the token is the
    right one. -/
inductive NExpr
  /-- a real or complex literal -/
  | lit (z : ℂ)
  /-- a variable or built-in constant, by its identifier token -/
  | var (name : Tok ℂ)
  | bin (o : BinOp) (l : NExpr) (op : Tok ℂ) (h : op.tag = o.tag) (r : NExpr)
  | un (o : UnOp) (op : Tok ℂ) (h : op.tag = o.tag) (x : NExpr)
  | grp (g : Grp) (open_ : Tok ℂ) (h : open_.tag = g.tag) (x : NExpr)

/-- the tree the parser builds -/
def NExpr.toExpr : NExpr → Expr ℂ
  | .lit z => .number z
  | .var name => .ident name
  | .bin _ l op _ r => .binary l.toExpr op r.toExpr
  | .un _ op _ x => .unary op x.toExpr
  | .grp g p _ x => .grouping p g.kind x.toExpr

/-- nesting depth (a leaf has depth 0) -/
def NExpr.depth : NExpr → Nat
  | .lit _ => 0
  | .var _ => 0
  | .bin _ l _ _ r => max l.depth r.depth + 1
  | .un _ _ _ x => x.depth + 1
  | .grp _ _ _ x => x.depth + 1

/-- the identifier tokens occurring in an expression -/
def NExpr.vars : NExpr → List (Tok ℂ)
  | .lit _ => []
  | .var name => [name]
  | .bin _ l _ _ r => l.vars ++ r.vars
  | .un _ _ _ x => x.vars
  | .grp _ _ _ x => x.vars

/-! ## Meaning -/

inductive RefusalKind
  /-- `/` or `%` with divisor zero -/
  | divisionByZero
  /-- `!` of something that is not a natural number -/
  | unaryConstraint
  /-- `⌈ ⌉` or `⌊ ⌋` of something that is not real -/
  | groupingConstraint
  | unknownVariable
  deriving DecidableEq, Repr, Inhabited

/-- a refusal: its kind, the position of the token it is reported at, and — for an unknown
    variable — the name -/
structure Refusal where
  kind : RefusalKind
  line : Nat
  col : Nat
  name : Str := []
  deriving DecidableEq, Repr, Inhabited

/-- why an expression has no value in ℂ -/
inductive Stop
  | refused (r : Refusal)
  /-- `n!` with `n > 170`: the value exists but exceeds every `f64`; the program answers with its
      infinity, which ℂ does not have.  C02 makes no claim about such expressions. -/
  | overflow
  deriving DecidableEq, Repr, Inhabited

def refuseAt (k : RefusalKind) (t : Tok ℂ) (name : Str := []) : Except Stop ℂ :=
  .error (.refused ⟨k, t.line, t.col, name⟩)

/-- round a real toward zero -/
noncomputable def truncR (r : ℝ) : ℤ := if 0 ≤ r then ⌊r⌋ else ⌈r⌉

/-- round both parts toward zero -/
noncomputable def trunc (z : ℂ) : ℂ := (truncR z.re : ℂ) + (truncR z.im : ℂ) * I

/-- truncated remainder: `a - b · trunc (a / b)` -/
noncomputable def remainder (a b : ℂ) : ℂ := a - b * trunc (a / b)

/-- `z` is a natural number -/
def IsNatural (z : ℂ) : Prop := z.im = 0 ∧ Int.fract z.re = 0 ∧ 0 ≤ z.re

open Classical in
noncomputable def denoteBin (o : BinOp) (op : Tok ℂ) (a b : ℂ) : Except Stop ℂ :=
  match o with
  | .add => .ok (a + b)
  | .sub => .ok (a - b)
  | .mul => .ok (a * b)
  | .div => if b = 0 then refuseAt .divisionByZero op else .ok (a / b)
  | .rem => if b = 0 then refuseAt .divisionByZero op else .ok (remainder a b)
  | .pow => .ok (a ^ b)

open Classical in
noncomputable def denoteUn (o : UnOp) (op : Tok ℂ) (a : ℂ) : Except Stop ℂ :=
  match o with
  | .neg => .ok (-a)
  | .root => .ok (a ^ ((1 : ℂ) / 2))
  | .fact =>
    if IsNatural a then
      if ⌊a.re⌋₊ ≤ 170 then .ok ((Nat.factorial ⌊a.re⌋₊ : ℕ) : ℂ) else .error .overflow
    else refuseAt .unaryConstraint op

open Classical in
noncomputable def denoteGrp (g : Grp) (open_ : Tok ℂ) (a : ℂ) : Except Stop ℂ :=
  match g with
  | .paren => .ok a
  | .abs => .ok ((‖a‖ : ℝ) : ℂ)
  | .ceil => if a.im = 0 then .ok ((⌈a.re⌉ : ℤ) : ℂ) else refuseAt .groupingConstraint open_
  | .floor => if a.im = 0 then .ok ((⌊a.re⌋ : ℤ) : ℂ) else refuseAt .groupingConstraint open_

/-- The value of a number expression, given the numbers the variables stand for.
    Left operand first, then the right one; a refusal of an operand is the refusal of the whole. -/
noncomputable def denote : NExpr → (Str → Option ℂ) → Except Stop ℂ
  | .lit z, _ => .ok z
  | .var t, ρ =>
    match ρ t.lexeme with
    | some z => .ok z
    | none => refuseAt .unknownVariable t t.lexeme
  | .bin o l op _ r, ρ =>
    match denote l ρ with
    | .ok a =>
      match denote r ρ with
      | .ok b => denoteBin o op a b
      | .error s => .error s
    | .error s => .error s
  | .un o op _ x, ρ =>
    match denote x ρ with
    | .ok a => denoteUn o op a
    | .error s => .error s
  | .grp g p _ x, ρ =>
    match denote x ρ with
    | .ok a => denoteGrp g p a
    | .error s => .error s

end Calc.Spec
