/-
  Calc.Spec.Lexeme — declarative vocabulary for the scanner properties (C01, C04, C17).

  Nothing here is used by the model; these are the notions the property statements are
  phrased in: what a number literal's text looks like, what one token at the head of a text
  is, what it means for a token list to be the scan of a text, position-forgetting, and
  token boundaries.  Core Lean only.
-/
import Calc.Model.Scanner
namespace Calc

/-! ## Shape of a number literal: `D(.F)?(e-?E)?` -/

/-- a non-empty run of ASCII digits -/
structure IsDigits (ds : List Char) : Prop where
  ne : ds ≠ []
  all : ∀ c ∈ ds, isDigit c = true

/-- `e E` or `e - E` -/
inductive ExpText : List Char → Prop
  | pos {E} : IsDigits E → ExpText ('e' :: E)
  | neg {E} : IsDigits E → ExpText ('e' :: '-' :: E)

/-- value of an optional exponent part: nothing, `e E`, or `e - E` -/
inductive ExpVal : List Char → Int → Prop
  | none : ExpVal [] 0
  | pos {E} : IsDigits E → ExpVal ('e' :: E) (digitsVal E)
  | neg {E} : IsDigits E → ExpVal ('e' :: '-' :: E) (-(digitsVal E : Int))

/-- `NumberVal t d`: the text `t` is digits, optional fraction, optional exponent, nothing
    else, and denotes the exact decimal `d.mant · 10 ^ d.exp` -/
inductive NumberVal : List Char → Decimal → Prop
  | int {D e x} : IsDigits D → ExpVal e x → NumberVal (D ++ e) ⟨digitsVal D, x⟩
  | frac {D F e x} : IsDigits D → IsDigits F → ExpVal e x →
      NumberVal (D ++ '.' :: F ++ e) ⟨digitsVal (D ++ F), x - (F.length : Int)⟩

/-- digits, optional fraction, optional exponent, nothing else -/
def NumberText (t : List Char) : Prop := ∃ d, NumberVal t d

/-! ## One token -/

/-- kind of a word: the table entry when the whole word is in the table, else an identifier -/
def wordKind {S} (cfg : ScanCfg S) (w : Str) : Kind S :=
  match cfg.keyword w with
  | some k => k
  | none => .ident w

/-- `Lexeme cfg s k ℓ r`: the token at the head of the text `s` (which starts with a non-blank)
    has kind `k`, source slice `ℓ`, and `r` is the text after it. -/
inductive Lexeme {S} [Kernel S] (cfg : ScanCfg S) : List Char → Kind S → List Char → List Char → Prop
  | single {c cs k} : isBlank c = false → singleKind c = some k → Lexeme cfg (c :: cs) k [c] cs
  | word {c cs} : isBlank c = false → singleKind (S := S) c = none → isIdentStart c = true →
      (c :: cs).takeWhile (isIdentCont cfg) ≠ [] →
      Lexeme cfg (c :: cs) (wordKind cfg ((c :: cs).takeWhile (isIdentCont cfg)))
        ((c :: cs).takeWhile (isIdentCont cfg)) ((c :: cs).dropWhile (isIdentCont cfg))
  | number {c cs d} : isBlank c = false → singleKind (S := S) c = none → isIdentStart c = false →
      isDigit c = true → parseDecimal (scanNumber (c :: cs)).text = some d →
      Lexeme cfg (c :: cs) (.number (Kernel.ofDecimal d.mant d.exp))
        (scanNumber (c :: cs)).text (scanNumber (c :: cs)).rest

/-- a character that cannot begin a token and is not a blank -/
def CannotBegin (S : Type) (c : Char) : Prop :=
  isBlank c = false ∧ singleKind (S := S) c = none ∧ isIdentStart c = false ∧ isDigit c = false

/-! ## A whole scan -/

def Pos.start : Pos := ⟨1, 1⟩

/-- `Scanned cfg p s toks`: `s`, whose first character is at position `p`, splits into
    blank run, token, blank run, token, …, blank run, and `toks` are those tokens with the
    position of the first character of their slices. -/
inductive Scanned {S} [Kernel S] (cfg : ScanCfg S) : Pos → List Char → List (Tok S) → Prop
  | done {p b} : b.all isBlank = true → Scanned cfg p b []
  | tok {p b s k ℓ r ts} : b.all isBlank = true → Lexeme cfg s k ℓ r →
      Scanned cfg (advs cfg.tab (advs cfg.tab p b) ℓ) r ts →
      Scanned cfg p (b ++ s)
        (⟨k, lexemeOf ℓ, (advs cfg.tab p b).line, (advs cfg.tab p b).col⟩ :: ts)

/-- a decomposition `[(b₀, ℓ₁), …, (bₙ₋₁, ℓₙ)]` read back as text `b₀ ℓ₁ … bₙ₋₁ ℓₙ` -/
def flat : List (List Char × List Char) → List Char
  | [] => []
  | (b, l) :: rest => b ++ l ++ flat rest

/-- `Boundary cfg x y`: in the text `x ++ y` the split point after `x` is a token boundary —
    `x` is a sequence of blanks and whole tokens of the scan of `x ++ y`. -/
inductive Boundary {S} [Kernel S] (cfg : ScanCfg S) : List Char → List Char → Prop
  | nil {y} : Boundary cfg [] y
  | blank {c x y} : isBlank c = true → Boundary cfg x y → Boundary cfg (c :: x) y
  | tok {k ℓ x y} : Lexeme cfg (ℓ ++ (x ++ y)) k ℓ (x ++ y) → Boundary cfg x y →
      Boundary cfg (ℓ ++ x) y

/-- `Decomp cfg p s toks segs bn`: the text `s` (first character at position `p`) is
    `b₀ ℓ₁ b₁ ℓ₂ … bₙ₋₁ ℓₙ bₙ` with `segs = [(b₀, ℓ₁), …, (bₙ₋₁, ℓₙ)]`, every `bᵢ` a blank run,
    and the `i`-th token of `toks` is the token whose slice is `ℓᵢ`: its kind is the one the
    declarative `Lexeme` assigns at that point of the text, its text is the slice (two
    characters for a newline), and its line and column are the position of the slice's first
    character. -/
structure Decomp {S} [Kernel S] (cfg : ScanCfg S) (p : Pos) (s : List Char) (toks : List (Tok S))
    (segs : List (List Char × List Char)) (bn : List Char) : Prop where
  text : s = flat segs ++ bn
  trailing : bn.all isBlank = true
  blanks : ∀ sg ∈ segs, sg.1.all isBlank = true
  nonempty : ∀ sg ∈ segs, sg.2 ≠ []
  lexemes : toks.map (·.lexeme) = segs.map (fun sg => lexemeOf sg.2)
  token : ∀ pre sg post, segs = pre ++ sg :: post →
    ∃ t, toks[pre.length]? = some t ∧
      Lexeme cfg (sg.2 ++ (flat post ++ bn)) t.kind sg.2 (flat post ++ bn) ∧
      t.lexeme = lexemeOf sg.2 ∧
      (⟨t.line, t.col⟩ : Pos) = advs cfg.tab p (flat pre ++ sg.1)
  boundary : ∀ pre post, segs = pre ++ post → Boundary cfg (flat pre) (flat post ++ bn)

/-- a token without its position (kinds carry the number values) -/
def Tok.noPos {S} (t : Tok S) : Kind S × Str := (t.kind, t.lexeme)

end Calc
