/-
  Calc.Spec.ExactUnits — the exact definitions of the units (specification side of C05/C06):
  SI prefixes; the international inch (0.0254 m), foot = 12 in, yard = 3 ft, mile = 1760 yd;
  the avoirdupois ounce (28.349523125 g), pound = 16 oz, stone = 14 lb; decimal (10^3k) and binary
  (2^10k) multiples of the byte, 8 bits to the byte; K = °C + 273.15 = (°F + 459.67)·5/9.
-/
import Mathlib.Algebra.Order.Field.Rat
import Mathlib.Algebra.Order.AbsoluteValue.Basic
import Calc.Model.Basic
namespace Calc.Spec
open Calc

/-- size of one unit, in the base unit of its kind (metre, kilogram, byte); temperature units
    are affine and have no such factor (value 1 here, never used) -/
def unitSize : Unit → ℚ
  | .distance .nanometer => 1 / 10 ^ 9
  | .distance .micrometer => 1 / 10 ^ 6
  | .distance .millimeter => 1 / 10 ^ 3
  | .distance .centimeter => 1 / 10 ^ 2
  | .distance .meter => 1
  | .distance .kilometer => 10 ^ 3
  | .distance .inch => 254 / 10000
  | .distance .foot => 12 * (254 / 10000)
  | .distance .yard => 3 * 12 * (254 / 10000)
  | .distance .mile => 1760 * 3 * 12 * (254 / 10000)
  | .mass .nanogram => 1 / 10 ^ 12
  | .mass .microgram => 1 / 10 ^ 9
  | .mass .milligram => 1 / 10 ^ 6
  | .mass .gram => 1 / 10 ^ 3
  | .mass .kilogram => 1
  | .mass .tonne => 10 ^ 3
  | .mass .ounce => 28349523125 / 10 ^ 12
  | .mass .pound => 16 * (28349523125 / 10 ^ 12)
  | .mass .stone => 14 * 16 * (28349523125 / 10 ^ 12)
  | .temperature _ => 1
  | .storage .byte => 1
  | .storage .kilobyte => 10 ^ 3
  | .storage .megabyte => 10 ^ 6
  | .storage .gigabyte => 10 ^ 9
  | .storage .terabyte => 10 ^ 12
  | .storage .petabyte => 10 ^ 15
  | .storage .exabyte => 10 ^ 18
  | .storage .kibibyte => 2 ^ 10
  | .storage .mebibyte => 2 ^ 20
  | .storage .gibibyte => 2 ^ 30
  | .storage .tebibyte => 2 ^ 40
  | .storage .petibyte => 2 ^ 50
  | .storage .exbibyte => 2 ^ 60
  | .storage .bit => 1 / 8
  | .storage .kilobit => 10 ^ 3 / 8
  | .storage .megabit => 10 ^ 6 / 8
  | .storage .gigabit => 10 ^ 9 / 8
  | .storage .terabit => 10 ^ 12 / 8
  | .storage .petabit => 10 ^ 15 / 8
  | .storage .exabit => 10 ^ 18 / 8
  | .storage .kibibit => 2 ^ 10 / 8
  | .storage .mebibit => 2 ^ 20 / 8
  | .storage .gibibit => 2 ^ 30 / 8
  | .storage .tebibit => 2 ^ 40 / 8
  | .storage .petibit => 2 ^ 50 / 8
  | .storage .exbibit => 2 ^ 60 / 8

def isImperial : Unit → Bool
  | .distance .inch | .distance .foot | .distance .yard | .distance .mile => true
  | .mass .ounce | .mass .pound | .mass .stone => true
  | _ => false

def isBitFamily : Unit → Bool
  | .storage .bit | .storage .kilobit | .storage .megabit | .storage .gigabit | .storage .terabit
  | .storage .petabit | .storage .exabit | .storage .kibibit | .storage .mebibit | .storage .gibibit
  | .storage .tebibit | .storage .petibit | .storage .exbibit => true
  | _ => false

/-- relative tolerance of a shipped factor: the imperial factors carry six significant digits
    (pinned by the repository's tests); every other factor must be the double next to its definition -/
def tolerance (u : Unit) : ℚ := if isImperial u then 1 / 10 ^ 5 else 1 / 2 ^ 50

/-- the documented symbol of each unit -/
def unitSymbol : Unit → String
  | .distance .nanometer => "nm" | .distance .micrometer => "μm" | .distance .millimeter => "mm"
  | .distance .centimeter => "cm" | .distance .meter => "m" | .distance .kilometer => "km"
  | .distance .inch => "in" | .distance .foot => "ft" | .distance .yard => "yd" | .distance .mile => "mi"
  | .mass .nanogram => "ng" | .mass .microgram => "µg" | .mass .milligram => "mg" | .mass .gram => "g"
  | .mass .kilogram => "kg" | .mass .tonne => "t" | .mass .ounce => "oz" | .mass .pound => "lb" | .mass .stone => "st"
  | .temperature .kelvin => "°K" | .temperature .celsius => "°C" | .temperature .fahrenheit => "°F"
  | .storage .byte => "B" | .storage .kilobyte => "KB" | .storage .megabyte => "MB" | .storage .gigabyte => "GB"
  | .storage .terabyte => "TB" | .storage .petabyte => "PB" | .storage .exabyte => "EB"
  | .storage .kibibyte => "KiB" | .storage .mebibyte => "MiB" | .storage .gibibyte => "GiB"
  | .storage .tebibyte => "TiB" | .storage .petibyte => "PiB" | .storage .exbibyte => "EiB"
  | .storage .bit => "b" | .storage .kilobit => "Kb" | .storage .megabit => "Mb" | .storage .gigabit => "Gb"
  | .storage .terabit => "Tb" | .storage .petabit => "Pb" | .storage .exabit => "Eb"
  | .storage .kibibit => "Kib" | .storage .mebibit => "Mib" | .storage .gibibit => "Gib"
  | .storage .tebibit => "Tib" | .storage .petibit => "Pib" | .storage .exbibit => "Eib"

end Calc.Spec
