/-
  Calc.Spec.BuiltinSpec — the built-in table as the property C08 states it: each name with its
  parameters and their stated domains, and the constants with their values to the stated digits.
-/
import Mathlib.Algebra.Order.Field.Rat
import Calc.Model.TableTypes
namespace Calc.Spec
open Calc.Gen

def num1 (n : String) : BuiltinSpec := ⟨n, [⟨"val", .number⟩]⟩

/-- every built-in function: name, parameters in order, stated domain of each -/
def builtins : List BuiltinSpec :=
  [num1 "abs", num1 "acos", num1 "acosh", num1 "arg", num1 "asin", num1 "asinh", num1 "atan", num1 "atanh",
   ⟨"ceil", [⟨"val", .real⟩]⟩, num1 "conj", num1 "cos", num1 "cosh",
   ⟨"determinant", [⟨"matrix", .squareMatrix⟩]⟩, ⟨"floor", [⟨"val", .real⟩]⟩,
   ⟨"gcd", [⟨"first", .integer⟩, ⟨"second", .integer⟩]⟩,
   ⟨"identity", [⟨"size", .positiveInteger⟩]⟩, num1 "im",
   ⟨"inverse", [⟨"matrix", .squareMatrix⟩]⟩,
   ⟨"lcm", [⟨"first", .integer⟩, ⟨"second", .integer⟩]⟩, num1 "ln",
   ⟨"log", [⟨"base", .real⟩, ⟨"val", .number⟩]⟩, num1 "log10", num1 "log2", num1 "re",
   num1 "sin", num1 "sinh", num1 "sqrt", num1 "tan", num1 "tanh",
   ⟨"transpose", [⟨"matrix", .matrix⟩]⟩]

/-- the names of the constants (with both spellings of π and φ) -/
def constantNames : List String := ["G", "c", "e", "i", "phi", "pi", "tau", "π", "ϕ"]

/-- rational enclosure of each real constant to the stated digits (imaginary part 0);
    `i` is handled separately -/
def constantBounds : String → Option (ℚ × ℚ)
  | "e" => some (2718281828459045 / 10 ^ 15, 2718281828459046 / 10 ^ 15)
  | "pi" | "π" => some (3141592653589793 / 10 ^ 15, 3141592653589794 / 10 ^ 15)
  | "tau" => some (6283185307179586 / 10 ^ 15, 6283185307179587 / 10 ^ 15)
  | "phi" | "ϕ" => some (1618033988749894 / 10 ^ 15, 1618033988749895 / 10 ^ 15)
  | "c" => some (299792458, 299792458)
  | "G" => some (980665 / 10 ^ 5 - 1 / 10 ^ 14, 980665 / 10 ^ 5 + 1 / 10 ^ 14)
  | _ => none

end Calc.Spec
