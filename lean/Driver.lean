/-
  calcdriver — model-side executor of the correspondence check: reads the case file the
  harness reads, runs the model at the `Cx` (Float) kernel, prints the same observation lines.
-/
import Calc.Exec.Canon
import Calc.Model.Render
open Calc Calc.Exec

def evalFuel : Nat := 3000

def parseTokDesc (d : String) : Tok Cx :=
  match d.splitOn "@" with
  | [tag, rest] =>
    let parts := rest.splitOn ":"
    let payload := if parts.length > 3 then some (":".intercalate (parts.drop 3)) else none
    { kind := kindOfCode tag.toNat! payload, lexeme := unhex (parts.getD 2 "-"),
      line := (parts.getD 0 "0").toNat!, col := (parts.getD 1 "0").toNat! }
  | _ => default

def parseValueDesc (d : String) : Value Cx :=
  match d.splitOn ":" with
  | ["n", z] => .number (parseCbits z)
  | ["q", u, z] => .measurement (parseCbits z) (unitOfIndex u.toNat!)
  | ["m", r, c, cells] =>
    let zs := (cells.splitOn ",").map parseCbits
    let c := c.toNat!
    .matrix ((List.range r.toNat!).map fun i => (zs.drop (i * c)).take c)
  | ["fn", k] =>
    match Env.get initEnv (unhex k) with
    | some v => v.value
    | none => .number 0
  | _ => .number 0

def lineOut (id s : String) : IO PUnit := IO.println (id ++ " " ++ s)

def stmtKindIsExpr : Stmt Cx → Bool | .expr _ => true | _ => false

/-- one text through the model's `processText`, statement by statement, printing what the
    harness prints -/
def histText (id : String) (k : Nat) (cfg : ScanCfg Cx) (env : Env Cx) (text : Str) : IO (Env Cx) := do
  let p := "T" ++ toString k
  match scan cfg text with
  | .bad e => lineOut id (p ++ " scanerr " ++ scanErrS e ++ " *"); return env
  | .panic s => lineOut id ("PANIC " ++ hex s); return env
  | .fuel => lineOut id "FUEL scan"; return env
  | .ok toks =>
    match parse toks with
    | .err e => lineOut id (p ++ " parseerr " ++ perrS e ++ " *"); return env
    | .fuel => lineOut id "FUEL parse"; return env
    | .ok stmts =>
      if stmts.isEmpty then lineOut id (p ++ " empty")
      let mut env := env
      let mut j := 0
      for s in stmts do
        lineOut id (p ++ " S" ++ toString j ++ " " ++ stmtS s)
        let o := step evalFuel env s
        env := o.env
        let obs := match o.out with
          | [] => "none text=-"
          | [.value v] => "val " ++ valueS v ++ " text=" ++ hex (showValue v ++ ['\n'])
          | [.evalErr d] => diagS d ++ " text=*"
          | [.panic s] => "PANIC " ++ hex s
          | [.fuel] => "FUEL eval"
          | _ => "UNEXPECTED"
        lineOut id (p ++ " O" ++ toString j ++ " " ++ obs)
        lineOut id (p ++ " E" ++ toString j ++ " " ++ snapshot env)
        j := j + 1
      return env

def runCase (line : String) : IO PUnit := do
  let f := line.splitOn " "
  let stream := f.getD 0 ""
  let id := f.getD 1 "?"
  match stream with
  | "tok" =>
    let tab := (f.getD 2 "4").toNat!
    match scan (scanCfg tab) (unhex (f.getD 3 "-")) with
    | .ok toks => lineOut id ("TOK ok " ++ "".intercalate (toks.map tokS))
    | .bad e => lineOut id ("TOK bad " ++ scanErrS e)
    | .panic s => lineOut id ("PANIC " ++ hex s)
    | .fuel => lineOut id "FUEL scan"
  | "parsek" | "parset" =>
    let toks? : Except String (List (Tok Cx)) :=
      if stream == "parsek" then .ok ((f.drop 2).filter (· != "") |>.map parseTokDesc)
      else match scan (scanCfg (f.getD 2 "4").toNat!) (unhex (f.getD 3 "-")) with
        | .ok toks => .ok toks
        | .bad e => .error ("PARSE scanerr " ++ scanErrS e)
        | .panic s => .error ("PANIC " ++ hex s)
        | .fuel => .error "FUEL scan"
    match toks? with
    | .error s => lineOut id s
    | .ok toks =>
      match parse toks with
      | .ok stmts => lineOut id ("PARSE ok " ++ "~".intercalate (stmts.map stmtS))
      | .err e => lineOut id ("PARSE err " ++ perrS e)
      | .fuel => lineOut id "FUEL parse"
  | "hist" =>
    let tab := (f.getD 2 "4").toNat!
    let cfg := scanCfg tab
    let mut env := initEnv
    let mut k := 0
    for t in f.drop 3 do
      env ← histText id k cfg env (unhex t)
      k := k + 1
  | "charclass" =>
    let pre := unhex (f.getD 2 "-")
    let suf := unhex (f.getD 3 "-")
    let cfg := scanCfg 4
    let hexn (n : Nat) : String := String.ofList (Nat.toDigits 16 n)
    let mut runs : Array (String × Nat × Nat) := #[]
    for cp in [0:0x110000] do
      if cp < 0xD800 || cp > 0xDFFF then
        let c := Char.ofNat cp
        let sig : String := match scan cfg (pre ++ [c] ++ suf) with
          | .ok toks => "+".intercalate (toks.map fun t =>
              toString (tagCode t.tag) ++ "." ++ toString (if t.tag == .newline then 2 else t.lexeme.length) ++ "." ++ toString t.col)
          | .bad e => "B" ++ toString e.line ++ "." ++ toString e.col ++ "." ++ (if e.ch == c then "c" else toString e.ch.toNat)
          | .panic _ => "PANIC"
          | .fuel => "FUEL"
        match runs.back? with
        | some (s0, lo, hi) =>
          if s0 == sig && (hi + 1 == cp || (hi == 0xD7FF && cp == 0xE000)) then runs := runs.pop.push (s0, lo, cp)
          else runs := runs.push (sig, cp, cp)
        | none => runs := runs.push (sig, cp, cp)
    lineOut id ("CHARCLASS " ++ toString runs.size ++ " " ++
      ",".intercalate (runs.toList.map fun (s0, lo, hi) => s0 ++ ":" ++ hexn lo ++ "-" ++ hexn hi))
  | "print" => lineOut id ("PRINT " ++ hex (showValue (parseValueDesc (f.getD 2 ""))))
  | "fmt" =>
    match (f.getD 2 "").splitOn ":" with
    | ["d", b] => lineOut id ("FMT " ++ hexStr (fmtBits (parseHex64 b)))
    | ["s", t] =>
      match parseDecimal (unhex t) with
      | some d => lineOut id ("FMT " ++ fbits (Float.ofBits (decimalToBits d.mant d.exp)))
      | none => lineOut id "FMT error"
    | _ => lineOut id "FMT ?"
  | "diagline" =>
    -- the rendered line of a diagnostic (C14Render): the model's reader applied to the implementation's text, and the
    -- model's frame `renderPos l c` compared with the beginning of that text
    let l := (f.getD 2 "0").toNat!
    let c := (f.getD 3 "0").toNat!
    let txt := unhex (f.getD 4 "-")
    let frame := renderPos l c
    let framed := txt.take frame.length == frame
    match readPos txt with
    | some (l', c', msg) =>
      lineOut id ("DIAGLINE " ++ (if framed && l' == l && c' == c then "1" else "0") ++ " " ++ toString l' ++ " " ++ toString c' ++ " " ++ toString msg.length)
    | none => lineOut id "DIAGLINE 0 unreadable"
  | _ => lineOut id "UNKNOWN-STREAM"

partial def loop (h : IO.FS.Stream) (idx : Nat) : IO PUnit := do
  let line ← h.getLine
  if line.isEmpty then return ()
  let line := (line.dropEndWhile (fun c => c == '\n' || c == '\r')).toString
  if !line.isEmpty && !line.startsWith "#" then
    let id := (line.splitOn " ").getD 1 "?"
    lineOut id ("BEGIN " ++ toString idx)
    runCase line
    lineOut id "END"
  loop h (idx + 1)

def main (args : List String) : IO PUnit := do
  match args with
  | [path] =>
    let h ← IO.FS.Handle.mk path .read
    loop (IO.FS.Stream.ofHandle h) 0
  | _ => loop (← IO.getStdin) 0
