//! Implementation-side executor of the correspondence check.
//!
//!   harness dump <out.json>              tables of the compiled tree (units, keywords, built-ins, Unicode classes)
//!   harness run <cases> <obs> [start]    run every case of <cases> (from line index `start`) on the real library,
//!                                        write canonical observations to <obs>
//!
//! Everything here calls the public API of `/repo/common` and the built-in table of
//! `/repo/calculator/src/builtin_math.rs` (included textually); nothing is re-implemented except the
//! twenty lines of `process_text` (main.rs:63-85), which are private to the binary crate and are validated
//! against the real binary by the `front` stream.

#![allow(clippy::all)]

mod builtin_math {
    include!(concat!(env!("CALC_REPO"), "/calculator/src/builtin_math.rs"));
}

mod canon;
mod dump;
mod run;

fn main() {
    let args: Vec<String> = std::env::args().collect();
    if args.len() < 2 {
        eprintln!("usage: harness dump <out.json> | run <cases> <obs> [start]");
        std::process::exit(2);
    }
    match args[1].as_str() {
        "dump" => dump::dump(&args[2]),
        "run" => {
            let start = if args.len() > 4 { args[4].parse().unwrap() } else { 0 };
            run::run(&args[2], &args[3], start)
        }
        _ => {
            eprintln!("unknown sub-command");
            std::process::exit(2);
        }
    }
}
