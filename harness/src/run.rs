//! `harness run`: execute cases on the real library and write canonical observations.

use crate::builtin_math::get_constants;
use crate::canon::*;
use common::num_complex::Complex64;
use common::parser::Parser;
use common::stmt::Statement;
use common::tokenizer::{Token, Tokenizer, TokenizerError};
use common::variable::value::function::Function;
use common::variable::value::matrix::Matrix;
use common::variable::value::measurement::Measurement;
use common::variable::value::Value;
use common::variable::VariableMap;
use std::cell::RefCell;
use std::fs::File;
use std::io::{BufRead, BufReader, Read, Seek, SeekFrom, Write};
use std::os::unix::io::AsRawFd;
use std::panic::{catch_unwind, AssertUnwindSafe};
use std::rc::Rc;
use std::str::FromStr;

thread_local! {
    static LAST_PANIC: RefCell<String> = RefCell::new(String::new());
}

/// Everything the library prints goes to fd 1; we point fd 1 at a scratch file and read it back.
struct Capture {
    file: File,
    offset: u64,
}

impl Capture {
    fn new(path: &str) -> Self {
        let file = std::fs::OpenOptions::new()
            .read(true)
            .write(true)
            .create(true)
            .truncate(true)
            .open(path)
            .expect("capture file");
        unsafe {
            libc::dup2(file.as_raw_fd(), 1);
        }
        Capture { file, offset: 0 }
    }
    /// text written to stdout since the previous call
    fn take(&mut self) -> String {
        std::io::stdout().flush().ok();
        let end = self.file.seek(SeekFrom::End(0)).unwrap();
        let mut buf = vec![0u8; (end - self.offset) as usize];
        self.file.seek(SeekFrom::Start(self.offset)).unwrap();
        self.file.read_exact(&mut buf).unwrap();
        self.offset = end;
        if end > (1 << 26) {
            // keep the scratch file small
            self.file.set_len(0).unwrap();
            self.file.seek(SeekFrom::Start(0)).unwrap();
            self.offset = 0;
        }
        String::from_utf8_lossy(&buf).into_owned()
    }
}

struct Out {
    f: std::io::BufWriter<File>,
}
impl Out {
    fn line(&mut self, id: &str, s: &str) {
        writeln!(self.f, "{} {}", id, s).unwrap();
    }
    fn flush(&mut self) {
        self.f.flush().unwrap();
    }
}

fn scan_err(e: &TokenizerError) -> String {
    match e {
        TokenizerError::BadChar { line, col, char } => format!("{} {} {}", line, col, *char as u32),
        #[allow(unreachable_patterns)]
        other => format!("0 0 other:{:?}", other),
    }
}

fn parse_tokdesc(d: &str) -> Token {
    // tag@line:col:lexhex[:payload]
    let (tag, rest) = d.split_once('@').unwrap();
    let parts: Vec<&str> = rest.splitn(4, ':').collect();
    let code: usize = tag.parse().unwrap();
    Token {
        kind: kind_from_code(code, parts.get(3).copied()),
        lexeme: unhex(parts[2]),
        line: parts[0].parse().unwrap(),
        col: parts[1].parse().unwrap(),
    }
}

fn parse_valuedesc(d: &str) -> Value<'static> {
    let parts: Vec<&str> = d.split(':').collect();
    match parts[0] {
        "n" => Value::Number(parse_cbits(parts[1])),
        "q" => Value::Measurement(Measurement::new(parse_cbits(parts[2]), all_units()[parts[1].parse::<usize>().unwrap()])),
        "m" => {
            let r: usize = parts[1].parse().unwrap();
            let c: usize = parts[2].parse().unwrap();
            let cells: Vec<Complex64> = parts[3].split(',').map(parse_cbits).collect();
            let rows: Vec<Vec<Complex64>> = (0..r).map(|i| cells[i * c..(i + 1) * c].to_vec()).collect();
            Value::Matrix(Matrix { rows })
        }
        "fn" => {
            let key = unhex(parts[1]);
            get_constants().remove(&key).expect("unknown built-in").value
        }
        _ => panic!("bad value descriptor"),
    }
}

/// names whose function values share one handle (must never happen once assignment copies)
fn alias_groups(vars: &VariableMap) -> Vec<String> {
    let mut names: Vec<&String> = vars.keys().collect();
    names.sort();
    let mut groups: Vec<(Rc<RefCell<Function>>, Vec<&String>)> = Vec::new();
    for n in names {
        if let Value::Function(f) = &vars[n].value {
            if let Some(g) = groups.iter_mut().find(|g| Rc::ptr_eq(&g.0, f)) {
                g.1.push(n);
            } else {
                groups.push((f.clone(), vec![n]));
            }
        }
    }
    groups
        .into_iter()
        .filter(|g| g.1.len() > 1)
        .map(|g| g.1.iter().map(|n| hex(n)).collect::<Vec<_>>().join("+"))
        .collect()
}

/// name -> canonical binding, for the frame monitor (C12)
fn bindings(vars: &VariableMap) -> std::collections::BTreeMap<String, String> {
    vars.iter()
        .map(|(k, v)| (k.clone(), format!("{}:{}", if v.constant { "c" } else { "v" }, value(&v.value))))
        .collect()
}

fn stmt_target(s: &Statement) -> Option<String> {
    match s {
        Statement::DeleteVariable(n) => Some(n.lexeme.clone()),
        Statement::DeleteFunctionSignature { name, .. } => Some(name.lexeme.clone()),
        Statement::Assignment { identifier, .. } => Some(identifier.lexeme.clone()),
        Statement::FunctionDeclaration { name, .. } => Some(name.lexeme.clone()),
        _ => None,
    }
}

fn result_canon(r: &Result<Value, common::expr::EvaluationError>) -> String {
    match r {
        Ok(v) => format!("val {}", value(v)),
        Err(e) => eval_err(e),
    }
}

/// the replica of `process_text` (main.rs:63-85), instrumented
fn process_text(id: &str, k: usize, text: &str, tab: u8, vars: &mut VariableMap<'static>, cap: &mut Capture, out: &mut Out, fresh: &[String]) {
    let p = format!("T{}", k);
    let tokens = match Tokenizer::tokenize(text, tab) {
        Ok(t) => t.tokens,
        Err(e) => {
            out.line(id, &format!("{} scanerr {} {}", p, scan_err(&e), hex(&format!("{}", e))));
            return;
        }
    };
    // statements are consumed by `interpret`, so parse twice: one copy to look at, one to run
    let look = match Parser::parse(tokens.clone()) {
        Ok(s) => s,
        Err(e) => {
            out.line(id, &format!("{} parseerr {} {}", p, parse_err(&e), hex(&format!("{}", e))));
            return;
        }
    };
    let exec = Parser::parse(tokens).expect("second parse differs from the first");
    if look.is_empty() {
        out.line(id, &format!("{} empty", p));
    }
    let mut carried: Option<String> = None;
    for (j, (st_look, st)) in look.into_iter().zip(exec.into_iter()).enumerate() {
        out.line(id, &format!("{} S{} {}", p, j, stmt(&st_look)));
        let before = match carried.take() {
            Some(s) => s,
            None => snapshot(vars),
        };
        let mut pre: Option<String> = None;
        let target = stmt_target(&st_look);
        let is_clear = matches!(st_look, Statement::Clear);
        let names_before = bindings(vars);
        if let Statement::ExpressionStatement(e) = &st_look {
            // C11 monitor: evaluate on the live table, twice, around deep snapshots
            let r1 = e.evaluate(vars);
            let c1 = result_canon(&r1);
            let expect_text = match &r1 {
                Ok(v) => format!("{}", v),
                Err(err) => format!("{}", err),
            };
            drop(r1);
            if snapshot(vars) != before {
                out.line(id, &format!("MON eval_mutated {} S{}", p, j));
            }
            let c2 = result_canon(&e.evaluate(vars));
            if c1 != c2 {
                out.line(id, &format!("MON eval_not_repeatable {} S{} {} {}", p, j, c1, c2));
            }
            pre = Some(format!("{}\u{0}{}", c1, expect_text));
        }
        cap.take();
        let r = st.interpret(vars);
        let mut printed = cap.take();
        let failed;
        let obs = match (&r, &pre) {
            (Err(e), _) => {
                failed = true;
                printed.push_str(&format!("{}\n", e)); // main.rs:82
                eval_err(e)
            }
            (Ok(()), Some(pre)) => {
                let (c1, expect_text) = pre.split_once('\u{0}').unwrap();
                failed = c1.starts_with("err ");
                if printed != format!("{}\n", expect_text) {
                    out.line(id, &format!("MON print_mismatch {} S{} {} {}", p, j, hex(&printed), hex(expect_text)));
                }
                c1.to_string()
            }
            (Ok(()), None) => {
                failed = false;
                "none".to_string()
            }
        };
        drop(r);
        out.line(id, &format!("{} O{} {} text={}", p, j, obs, hex(&printed)));
        let after = snapshot(vars);
        out.line(id, &format!("{} E{} {}", p, j, after));
        // C10 monitor: a failed statement changes nothing
        if failed && after != before {
            out.line(id, &format!("MON failed_stmt_mutated {} S{}", p, j));
        }
        // C09 monitor: built-ins equal to a fresh initial table
        let now = consts_full(vars);
        if now != fresh {
            out.line(id, &format!("MON builtins_changed {} S{}", p, j));
        }
        // C12 monitor (frame): a statement changes no binding other than its own target's (`clear` aside)
        if !is_clear {
            let names_after = bindings(vars);
            let mut all: Vec<&String> = names_before.keys().chain(names_after.keys()).collect();
            all.sort();
            all.dedup();
            for n in all {
                if Some(n) != target.as_ref() && names_before.get(n) != names_after.get(n) {
                    out.line(id, &format!("MON frame_violated {} S{} {}", p, j, hex(n)));
                }
            }
        }
        // C12 monitor: no two names share a function handle
        for g in alias_groups(vars) {
            out.line(id, &format!("MON alias {} S{} {}", p, j, g));
        }
        carried = Some(after);
    }
}

fn run_case(line: &str, cap: &mut Capture, out: &mut Out, fresh: &[String]) {
    let f: Vec<&str> = line.split(' ').collect();
    let (stream, id) = (f[0], f[1]);
    match stream {
        "tok" => {
            let tab: u8 = f[2].parse().unwrap();
            let text = unhex(f[3]);
            match Tokenizer::tokenize(&text, tab) {
                Ok(t) => {
                    let toks: String = t.tokens.iter().map(tok).collect();
                    out.line(id, &format!("TOK ok {}", toks));
                }
                Err(e) => out.line(id, &format!("TOK bad {}", scan_err(&e))),
            };
        }
        "parsek" | "parset" => {
            let tokens: Vec<Token> = if stream == "parsek" {
                f[2..].iter().filter(|d| !d.is_empty()).map(|d| parse_tokdesc(d)).collect()
            } else {
                let tab: u8 = f[2].parse().unwrap();
                match Tokenizer::tokenize(&unhex(f[3]), tab) {
                    Ok(t) => t.tokens,
                    Err(e) => {
                        out.line(id, &format!("PARSE scanerr {}", scan_err(&e)));
                        return;
                    }
                }
            };
            match Parser::parse(tokens) {
                Ok(stmts) => out.line(id, &format!("PARSE ok {}", stmts.iter().map(stmt).collect::<Vec<_>>().join("~"))),
                Err(e) => out.line(id, &format!("PARSE err {}", parse_err(&e))),
            }
        }
        "hist" => {
            let tab: u8 = f[2].parse().unwrap();
            let mut vars = get_constants();
            for (k, t) in f[3..].iter().enumerate() {
                process_text(id, k, &unhex(t), tab, &mut vars, cap, out, fresh);
            }
        }
        "charclass" => {
            // exhaustive over every Unicode scalar value c: how is `prefix ++ c ++ suffix` scanned?
            let prefix = unhex(f[2]);
            let suffix = unhex(f[3]);
            let mut runs: Vec<(String, u32, u32)> = Vec::new();
            for cp in 0..=0x10FFFFu32 {
                let c = match char::from_u32(cp) {
                    Some(c) => c,
                    None => continue,
                };
                let text = format!("{}{}{}", prefix, c, suffix);
                let sig = match Tokenizer::tokenize(&text, 4) {
                    Ok(t) => t
                        .tokens
                        .iter()
                        .map(|t| format!("{}.{}.{}", tag_code(&t.kind), t.lexeme.chars().count(), t.col))
                        .collect::<Vec<_>>()
                        .join("+"),
                    Err(TokenizerError::BadChar { line, col, char }) => {
                        format!("B{}.{}.{}", line, col, if char == c { "c".to_string() } else { format!("{}", char as u32) })
                    }
                    #[allow(unreachable_patterns)]
                    Err(_) => "E?".to_string(),
                };
                match runs.last_mut() {
                    Some(r) if r.0 == sig && (r.2 + 1 == cp || (r.2 == 0xD7FF && cp == 0xE000)) => r.2 = cp,
                    _ => runs.push((sig, cp, cp)),
                }
            }
            let body: Vec<String> = runs.iter().map(|r| format!("{}:{:x}-{:x}", r.0, r.1, r.2)).collect();
            out.line(id, &format!("CHARCLASS {} {}", runs.len(), body.join(",")));
        }
        "print" => {
            let v = parse_valuedesc(f[2]);
            out.line(id, &format!("PRINT {}", hex(&format!("{}", v))));
        }
        "fmt" => {
            let (k, body) = f[2].split_once(':').unwrap();
            if k == "d" {
                out.line(id, &format!("FMT {}", hex(&format!("{}", parse_fbits(body)))));
            } else {
                match f64::from_str(&unhex(body)) {
                    Ok(x) => out.line(id, &format!("FMT {}", fbits(x))),
                    Err(_) => out.line(id, "FMT error"),
                }
            }
        }
        _ => out.line(id, "UNKNOWN-STREAM"),
    }
}

pub fn run(cases: &str, obs: &str, start: usize) {
    let mut cap = Capture::new(&format!("{}.stdout", obs));
    let mut out = Out {
        f: std::io::BufWriter::new(
            std::fs::OpenOptions::new().create(true).append(true).open(obs).expect("obs file"),
        ),
    };
    std::panic::set_hook(Box::new(|info| {
        let msg = if let Some(s) = info.payload().downcast_ref::<&str>() {
            s.to_string()
        } else if let Some(s) = info.payload().downcast_ref::<String>() {
            s.clone()
        } else {
            "panic".to_string()
        };
        let loc = info.location().map(|l| format!("{}:{}", l.file(), l.line())).unwrap_or_default();
        LAST_PANIC.with(|p| *p.borrow_mut() = format!("{} @ {}", msg, loc));
    }));
    let fresh = consts_full(&get_constants());
    let reader = BufReader::new(File::open(cases).expect("case file"));
    for (idx, line) in reader.lines().enumerate() {
        let line = line.unwrap();
        if idx < start || line.is_empty() || line.starts_with('#') {
            continue;
        }
        let id = line.split(' ').nth(1).unwrap_or("?").to_string();
        out.line(&id, &format!("BEGIN {}", idx));
        out.flush(); // journal before execute: a dead worker is attributed to this case
        let r = catch_unwind(AssertUnwindSafe(|| run_case(&line, &mut cap, &mut out, &fresh)));
        if r.is_err() {
            let msg = LAST_PANIC.with(|p| p.borrow().clone());
            out.line(&id, &format!("PANIC {}", hex(&msg)));
        }
        out.line(&id, "END");
    }
    out.flush();
}
