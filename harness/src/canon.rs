//! Canonical, text-stable forms of the library's values (shared with the Lean driver, see DESIGN.md appendix C).

use common::expr::{EvaluationError, Expr, GroupingKind};
use common::num_complex::Complex64;
use common::parser::ParserError;
use common::stmt::Statement;
use common::tokenizer::{Token, TokenKind};
use common::variable::value::function::{Function, Signature, UserDefinedFunctionArgType};
use common::variable::value::unit::{DistanceUnit, MassUnit, StorageUnit, TemperatureUnit, Unit};
use common::variable::value::Value;
use common::variable::VariableMap;
use std::fmt::Write;

pub fn hex(s: &str) -> String {
    if s.is_empty() {
        return "-".to_string();
    }
    let mut o = String::with_capacity(s.len() * 2);
    for b in s.bytes() {
        write!(o, "{:02x}", b).unwrap();
    }
    o
}

pub fn unhex(s: &str) -> String {
    if s == "-" {
        return String::new();
    }
    let bytes: Vec<u8> = (0..s.len() / 2)
        .map(|i| u8::from_str_radix(&s[2 * i..2 * i + 2], 16).unwrap())
        .collect();
    String::from_utf8(bytes).unwrap()
}

/// IEEE bits, every NaN mapped to the one quiet NaN
pub fn fbits(x: f64) -> String {
    if x.is_nan() {
        "#7ff8000000000000".to_string()
    } else {
        format!("#{:016x}", x.to_bits())
    }
}

pub fn cbits(z: &Complex64) -> String {
    format!("{}_{}", fbits(z.re), fbits(z.im))
}

pub fn parse_fbits(s: &str) -> f64 {
    f64::from_bits(u64::from_str_radix(s.trim_start_matches('#'), 16).unwrap())
}

pub fn parse_cbits(s: &str) -> Complex64 {
    let mut it = s.split('_');
    let re = parse_fbits(it.next().unwrap());
    let im = parse_fbits(it.next().unwrap());
    Complex64::new(re, im)
}

pub const DISTANCE: [DistanceUnit; 10] = [
    DistanceUnit::Nanometer,
    DistanceUnit::Micrometer,
    DistanceUnit::Millimeter,
    DistanceUnit::Centimeter,
    DistanceUnit::Meter,
    DistanceUnit::Kilometer,
    DistanceUnit::Inch,
    DistanceUnit::Foot,
    DistanceUnit::Yard,
    DistanceUnit::Mile,
];
pub const MASS: [MassUnit; 9] = [
    MassUnit::Nanogram,
    MassUnit::Microgram,
    MassUnit::Milligram,
    MassUnit::Gram,
    MassUnit::Kilogram,
    MassUnit::Tonne,
    MassUnit::Ounce,
    MassUnit::Pound,
    MassUnit::Stone,
];
pub const TEMPERATURE: [TemperatureUnit; 3] = [
    TemperatureUnit::Kelvin,
    TemperatureUnit::Celsius,
    TemperatureUnit::Fahrenheit,
];
pub const STORAGE: [StorageUnit; 26] = [
    StorageUnit::Byte,
    StorageUnit::Kilobyte,
    StorageUnit::Megabyte,
    StorageUnit::Gigabyte,
    StorageUnit::Terabyte,
    StorageUnit::Petabyte,
    StorageUnit::Exabyte,
    StorageUnit::Kibibyte,
    StorageUnit::Mebibyte,
    StorageUnit::Gibibyte,
    StorageUnit::Tebibyte,
    StorageUnit::Petibyte,
    StorageUnit::Exbibyte,
    StorageUnit::Bit,
    StorageUnit::Kilobit,
    StorageUnit::Megabit,
    StorageUnit::Gigabit,
    StorageUnit::Terabit,
    StorageUnit::Petabit,
    StorageUnit::Exabit,
    StorageUnit::Kibibit,
    StorageUnit::Mebibit,
    StorageUnit::Gibibit,
    StorageUnit::Tebibit,
    StorageUnit::Petibit,
    StorageUnit::Exbibit,
];

pub fn all_units() -> Vec<Unit> {
    let mut v = Vec::new();
    for u in DISTANCE {
        v.push(Unit::Distance(u));
    }
    for u in MASS {
        v.push(Unit::Mass(u));
    }
    for u in TEMPERATURE {
        v.push(Unit::Temperature(u));
    }
    for u in STORAGE {
        v.push(Unit::Storage(u));
    }
    v
}

pub fn unit_index(u: &Unit) -> usize {
    all_units().iter().position(|x| x == u).unwrap_or(999)
}

pub fn tag_code(k: &TokenKind) -> usize {
    match k {
        TokenKind::LeftParen => 0,
        TokenKind::RightParen => 1,
        TokenKind::LeftBracket => 2,
        TokenKind::RightBracket => 3,
        TokenKind::LeftCeiling => 4,
        TokenKind::RightCeiling => 5,
        TokenKind::LeftFloor => 6,
        TokenKind::RightFloor => 7,
        TokenKind::Plus => 8,
        TokenKind::Minus => 9,
        TokenKind::Slash => 10,
        TokenKind::Star => 11,
        TokenKind::Caret => 12,
        TokenKind::Bang => 13,
        TokenKind::Pipe => 14,
        TokenKind::Percent => 15,
        TokenKind::Comma => 16,
        TokenKind::Equal => 17,
        TokenKind::Sqrt => 18,
        TokenKind::Dot => 19,
        TokenKind::Cross => 20,
        TokenKind::Newline => 21,
        TokenKind::Semicolon => 22,
        TokenKind::Delete => 23,
        TokenKind::Clear => 24,
        TokenKind::As => 25,
        TokenKind::Identifier(_) => 26,
        TokenKind::Number(_) => 27,
        TokenKind::Unit(_) => 28,
        #[allow(unreachable_patterns)]
        _ => 99, // a token kind the model does not know: reported as a disagreement, never a build failure
    }
}

pub fn kind_from_code(code: usize, payload: Option<&str>) -> TokenKind {
    match code {
        0 => TokenKind::LeftParen,
        1 => TokenKind::RightParen,
        2 => TokenKind::LeftBracket,
        3 => TokenKind::RightBracket,
        4 => TokenKind::LeftCeiling,
        5 => TokenKind::RightCeiling,
        6 => TokenKind::LeftFloor,
        7 => TokenKind::RightFloor,
        8 => TokenKind::Plus,
        9 => TokenKind::Minus,
        10 => TokenKind::Slash,
        11 => TokenKind::Star,
        12 => TokenKind::Caret,
        13 => TokenKind::Bang,
        14 => TokenKind::Pipe,
        15 => TokenKind::Percent,
        16 => TokenKind::Comma,
        17 => TokenKind::Equal,
        18 => TokenKind::Sqrt,
        19 => TokenKind::Dot,
        20 => TokenKind::Cross,
        21 => TokenKind::Newline,
        22 => TokenKind::Semicolon,
        23 => TokenKind::Delete,
        24 => TokenKind::Clear,
        25 => TokenKind::As,
        26 => TokenKind::Identifier(unhex(payload.unwrap())),
        27 => TokenKind::Number(parse_cbits(payload.unwrap())),
        28 => TokenKind::Unit(all_units()[payload.unwrap().parse::<usize>().unwrap()]),
        _ => panic!("bad tag code"),
    }
}

/// `{tag@line:col:lexeme[:payload]}`
pub fn tok(t: &Token) -> String {
    let payload = match &t.kind {
        TokenKind::Identifier(s) => format!(":{}", hex(s)),
        TokenKind::Number(z) => format!(":{}", cbits(z)),
        TokenKind::Unit(u) => format!(":{}", unit_index(u)),
        _ => String::new(),
    };
    format!("{{{}@{}:{}:{}{}}}", tag_code(&t.kind), t.line, t.col, hex(&t.lexeme), payload)
}

pub fn expr(e: &Expr) -> String {
    match e {
        Expr::As { expr: x, _as, unit } => format!("A{}u{}({})", tok(_as), unit_index(unit), expr(x)),
        Expr::Binary { left, operator, right } => format!("B{}({},{})", tok(operator), expr(left), expr(right)),
        Expr::Unary { operator, operand } => format!("U{}({})", tok(operator), expr(operand)),
        Expr::Grouping { paren, kind, expr: x } => {
            let k = match kind {
                GroupingKind::Grouping => 0,
                GroupingKind::Absolute => 1,
                GroupingKind::Ceil => 2,
                GroupingKind::Floor => 3,
            };
            format!("G{}{}({})", k, tok(paren), expr(x))
        }
        Expr::Number { number } => format!("N{}", cbits(number)),
        Expr::Measurement { measurement } => format!("Q{}_{}", unit_index(&measurement.unit), cbits(&measurement.num)),
        Expr::Matrix { bracket, parameters } => {
            let rows: Vec<String> = parameters
                .iter()
                .map(|r| r.iter().map(expr).collect::<Vec<_>>().join(","))
                .collect();
            format!("M{}[{}]", tok(bracket), rows.join(";"))
        }
        Expr::Identifier { name } => format!("I{}", tok(name)),
        Expr::Call { callee, paren, arguments } => format!(
            "C{}({}|{})",
            tok(paren),
            expr(callee),
            arguments.iter().map(expr).collect::<Vec<_>>().join(",")
        ),
        #[allow(unreachable_patterns)]
        other => format!("?{}", hex(&format!("{:?}", other).chars().take(40).collect::<String>())),
    }
}

pub fn sig(s: &Signature) -> String {
    s.parameters
        .iter()
        .map(|p| match p {
            UserDefinedFunctionArgType::Identifier(n) => format!("i{}", hex(n)),
            UserDefinedFunctionArgType::Number(z) => format!("n{}", cbits(z)),
        })
        .collect::<Vec<_>>()
        .join(",")
}

pub fn stmt(s: &Statement) -> String {
    match s {
        Statement::ExpressionStatement(e) => format!("E:{}", expr(e)),
        Statement::DeleteVariable(n) => format!("X:{}", tok(n)),
        Statement::DeleteFunctionSignature { name, signature } => format!("S:{}:({})", tok(name), sig(signature)),
        Statement::Assignment { identifier, expr: e } => format!("=:{}:{}", tok(identifier), expr(e)),
        Statement::FunctionDeclaration { name, signature, expr: e } => {
            format!("D:{}:({}):{}", tok(name), sig(signature), expr(e))
        }
        Statement::Clear => "K".to_string(),
        #[allow(unreachable_patterns)]
        other => format!("?{}", hex(&format!("{:?}", other).chars().take(40).collect::<String>())),
    }
}

pub fn value(v: &Value) -> String {
    match v {
        Value::Number(z) => format!("n:{}", cbits(z)),
        Value::Measurement(m) => format!("q:{}:{}", unit_index(&m.unit), cbits(&m.num)),
        Value::Matrix(m) => {
            let r = m.rows.len();
            let c = if r > 0 { m.rows[0].len() } else { 0 };
            let cells: Vec<String> = m.rows.iter().flat_map(|row| row.iter().map(cbits)).collect();
            format!("m:{}:{}:{}", r, c, cells.join(","))
        }
        Value::Function(f) => match &*f.borrow() {
            Function::NativeFunction(n) => format!("fn:{}", hex(n.name)),
            Function::UserDefinedFunction(u) => {
                let sigs: Vec<String> = u
                    .signatures
                    .iter()
                    .map(|(s, e)| format!("[({})={}]", sig(s), expr(e)))
                    .collect();
                format!("fu:{}:{}", hex(&u.name), sigs.join(""))
            }
            #[allow(unreachable_patterns)]
            _ => "f?".to_string(),
        },
        #[allow(unreachable_patterns)]
        other => format!("v?{}", hex(&format!("{:?}", other).chars().take(40).collect::<String>())),
    }
}

pub fn fnv1a(s: &str) -> u64 {
    let mut h: u64 = 0xcbf29ce484222325;
    for b in s.bytes() {
        h ^= b as u64;
        h = h.wrapping_mul(0x100000001b3);
    }
    h
}

/// Deep snapshot: non-constant entries in full (sorted by name), constants as one digest.
pub fn snapshot(vars: &VariableMap) -> String {
    let mut names: Vec<&String> = vars.keys().collect();
    names.sort();
    let mut user = Vec::new();
    let mut consts = String::new();
    for n in names {
        let var = &vars[n];
        let entry = format!("{}={}", hex(n), value(&var.value));
        if var.constant {
            consts.push_str(&entry);
            consts.push(';');
        } else {
            user.push(entry);
        }
    }
    format!("{} consts={:016x}", if user.is_empty() { "-".to_string() } else { user.join(";") }, fnv1a(&consts))
}

/// full listing of the constant entries (for the built-ins monitor)
pub fn consts_full(vars: &VariableMap) -> Vec<String> {
    let mut names: Vec<&String> = vars.keys().filter(|k| vars[*k].constant).collect();
    names.sort();
    names.iter().map(|n| format!("{}={}", hex(n), value(&vars[*n].value))).collect()
}

pub fn eval_err(e: &EvaluationError) -> String {
    let (kind, line, col, info): (&str, usize, usize, String) = match e {
        EvaluationError::NativeFunctionIncorrectParameterCount(x) => (
            "incorrectParameterCount",
            x.line,
            x.col,
            format!("{}:{}:{}", x.name, x.required, x.received),
        ),
        EvaluationError::NativeFunctionIncorrectParameterType(x) => (
            "incorrectParameterType",
            x.line,
            x.col,
            format!("{}:{}:{}:{}", x.function_name, x.idx, x.name, constraint_name(&x.constraint)),
        ),
        EvaluationError::NativeFunctionCantAddSignature(x) => ("cantAddSignature", x.name.line, x.name.col, x.name.lexeme.clone()),
        EvaluationError::NativeFunctionCantDeleteSignature(x) => {
            ("cantDeleteSignature", x.name.line, x.name.col, x.name.lexeme.clone())
        }
        EvaluationError::UserDefinedFunctionNoMatchingSignature(x) => ("noMatchingSignature", x.line, x.col, x.name.clone()),
        EvaluationError::DivisionByZero(x) => ("divisionByZero", x.line, x.col, String::new()),
        EvaluationError::UnsupportedBinaryOperator(x) => ("unsupportedBinaryOperator", x.operator.line, x.operator.col, String::new()),
        EvaluationError::UnsupportedUnaryOperator(x) => ("unsupportedUnaryOperator", x.operator.line, x.operator.col, String::new()),
        EvaluationError::UnaryOperatorValueConstraintNotMet(x) => {
            ("unaryOperatorValueConstraintNotMet", x.operator.line, x.operator.col, String::new())
        }
        EvaluationError::InvalidGroupingOperand(x) => ("invalidGroupingOperand", x.line, x.col, String::new()),
        EvaluationError::GroupingValueConstraintNotMet(x) => ("groupingValueConstraintNotMet", x.line, x.col, String::new()),
        EvaluationError::InvalidCallable(x) => ("invalidCallable", x.line, x.col, String::new()),
        EvaluationError::ConstantAssignment(x) => ("constantAssignment", x.name.line, x.name.col, x.name.lexeme.clone()),
        EvaluationError::ConstantDeletion(x) => ("constantDeletion", x.name.line, x.name.col, x.name.lexeme.clone()),
        EvaluationError::UnknownVariable(x) => ("unknownVariable", x.name.line, x.name.col, x.name.lexeme.clone()),
        EvaluationError::InvalidMatrixParameter(x) => (
            "invalidMatrixParameter",
            x.line,
            x.col,
            format!("{}:{}", x.parameter_row, x.parameter_col),
        ),
        EvaluationError::NoInverseForMatrix(x) => ("noInverseForMatrix", x.line, x.col, String::new()),
        EvaluationError::InvalidMeasurementConversion(x) => ("invalidMeasurementConversion", x.line, x.col, String::new()),
        #[allow(unreachable_patterns)]
        other => {
            // a diagnostic kind the model does not know
            let name: String = format!("{:?}", other).chars().take_while(|c| c.is_alphanumeric()).collect();
            return format!("err other:{} 0 0 -", name);
        }
    };
    format!("err {} {} {} {}", kind, line, col, hex(&info))
}

pub fn constraint_name(c: &common::variable::value::constraint::ValueConstraint) -> &'static str {
    use common::variable::value::constraint::ValueConstraint::*;
    match c {
        Function => "function",
        Number => "number",
        Real => "real",
        Natural => "natural",
        Integer => "integer",
        PositiveInteger => "positive_integer",
        Matrix => "matrix",
        SquareMatrix => "square_matrix",
        #[allow(unreachable_patterns)]
        _ => "other",
    }
}

pub fn expected_name(k: &TokenKind) -> &'static str {
    match k {
        TokenKind::RightParen => "RightParen",
        TokenKind::RightBracket => "RightBracket",
        TokenKind::RightCeiling => "RightCeiling",
        TokenKind::RightFloor => "RightFloor",
        TokenKind::Pipe => "Pipe",
        _ => "other",
    }
}

pub fn parse_err(e: &ParserError) -> String {
    fn pos(t: &Option<Token>) -> String {
        match t {
            Some(t) => format!("{} {}", t.line, t.col),
            None => "- -".to_string(),
        }
    }
    match e {
        ParserError::ExpectedExpression(x) => format!("expectedExpression {} -", pos(&x.found)),
        ParserError::ExpectedUnit(x) => format!("expectedUnit {} -", pos(&x.found)),
        ParserError::ExpectedDelimeter(x) => format!("expectedDelimeter {} -", pos(&x.found)),
        ParserError::ExpectedToken(x) => format!("expectedToken {} {}", pos(&x.found), hex(expected_name(&x.expected))),
        ParserError::ExpectedEOF(x) => format!("expectedEOF {} {} -", x.found.line, x.found.col),
        ParserError::InvalidAssignmentTarget(x) => format!("invalidAssignmentTarget {} {} -", x.equal.line, x.equal.col),
        ParserError::CannotDelete(x) => format!("cannotDelete {} {} -", x.delete.line, x.delete.col),
        ParserError::InconsistentMatrixRowLength(x) => format!(
            "inconsistentMatrixRowLength {} {} {}",
            x.line,
            x.col,
            hex(&format!("{}:{}:{}", x.row, x.correct_length, x.length_passed))
        ),
        #[allow(unreachable_patterns)]
        other => format!("other:{} - - -", format!("{:?}", other).chars().take_while(|c| c.is_alphanumeric()).collect::<String>()),
    }
}
