//! `harness dump`: the finite tables of the compiled tree, by enumeration through the public API.

use crate::builtin_math::get_constants;
use crate::canon::*;
use common::expr::EvaluationError;
use common::num_complex::Complex64;
use common::tokenizer::{TokenKind, Tokenizer};
use common::variable::value::function::Function;
use common::variable::value::matrix::Matrix;
use common::variable::value::unit::Unit;
use common::variable::value::Value;
use std::fmt::Write;

fn jstr(s: &str) -> String {
    let mut o = String::from("\"");
    for c in s.chars() {
        match c {
            '"' => o.push_str("\\\""),
            '\\' => o.push_str("\\\\"),
            '\n' => o.push_str("\\n"),
            c if (c as u32) < 0x20 => write!(o, "\\u{:04x}", c as u32).unwrap(),
            c => o.push(c),
        }
    }
    o.push('"');
    o
}

fn unit_rows() -> Vec<String> {
    all_units()
        .iter()
        .enumerate()
        .map(|(i, u)| {
            let (kind, bits) = match u {
                Unit::Distance(d) => ("distance", Some(d.get_per_meter().to_bits())),
                Unit::Mass(m) => ("mass", Some(m.get_per_kilo().to_bits())),
                Unit::Storage(s) => ("storage", Some(s.get_per_byte().to_bits())),
                Unit::Temperature(_) => ("temperature", None),
                #[allow(unreachable_patterns)]
                _ => ("other", None),
            };
            let variant = match u {
                Unit::Distance(d) => format!("{:?}", d),
                Unit::Mass(d) => format!("{:?}", d),
                Unit::Storage(d) => format!("{:?}", d),
                Unit::Temperature(d) => format!("{:?}", d),
                #[allow(unreachable_patterns)]
                _ => "other".to_string(),
            };
            format!(
                "{{\"index\":{},\"kind\":{},\"variant\":{},\"bits\":{},\"symbol\":{},\"type_string\":{}}}",
                i,
                jstr(kind),
                jstr(&variant),
                match bits {
                    Some(b) => format!("\"{:016x}\"", b),
                    None => "null".to_string(),
                },
                jstr(&format!("{}", u)),
                jstr(u.get_type_string())
            )
        })
        .collect()
}

/// every string literal of tokenizer.rs (tolerant scan) — candidates for the keyword table
fn literals_of_tokenizer() -> Vec<String> {
    let path = concat!(env!("CALC_REPO"), "/common/src/tokenizer/tokenizer.rs");
    let src = std::fs::read_to_string(path).unwrap_or_default();
    let mut out = Vec::new();
    let mut chars = src.chars().peekable();
    while let Some(c) = chars.next() {
        if c == '"' {
            let mut s = String::new();
            while let Some(d) = chars.next() {
                if d == '\\' {
                    chars.next();
                    s.clear();
                    s.push('\\');
                    continue;
                }
                if d == '"' {
                    break;
                }
                s.push(d);
            }
            if !s.is_empty() && !s.contains('\\') && !s.contains(' ') && s.chars().count() <= 24 {
                out.push(s);
            }
        }
    }
    out
}

fn keyword_rows(extra: &[String]) -> Vec<String> {
    let mut cands: Vec<String> = literals_of_tokenizer();
    cands.extend(extra.iter().cloned());
    for u in all_units() {
        cands.push(format!("{}", u));
    }
    cands.sort();
    cands.dedup();
    let mut rows = Vec::new();
    for w in cands {
        let r = std::panic::catch_unwind(|| Tokenizer::tokenize(&w, 4).map(|t| t.tokens));
        if let Ok(Ok(toks)) = r {
            if toks.len() == 1 && toks[0].lexeme == w {
                let first = w.chars().next().unwrap();
                let wordlike = first.is_alphabetic() || first == '_' || first == '°';
                match &toks[0].kind {
                    TokenKind::Identifier(_) | TokenKind::Number(_) => {}
                    k if wordlike => {
                        let unit = match k {
                            TokenKind::Unit(u) => format!("{}", unit_index(u)),
                            _ => "null".to_string(),
                        };
                        rows.push(format!("{{\"word\":{},\"tag\":{},\"unit\":{}}}", jstr(&w), tag_code(k), unit));
                    }
                    _ => {}
                }
            }
        }
    }
    rows
}

/// a value inside / outside each constraint, used to walk the generated argument checks
fn fitting(constraint: &str) -> Value<'static> {
    match constraint {
        "matrix" | "square_matrix" => Value::Matrix(Matrix::from_rows(vec![vec![Complex64::new(1.0, 0.0)]])),
        "function" => get_constants().remove("sin").unwrap().value,
        _ => Value::Number(Complex64::new(1.0, 0.0)),
    }
}

fn builtin_rows() -> Vec<String> {
    let consts = get_constants();
    let mut names: Vec<&String> = consts.keys().collect();
    names.sort();
    let mut rows = Vec::new();
    for key in names {
        let var = &consts[key];
        match &var.value {
            Value::Function(f) => {
                let f = f.borrow();
                match &*f {
                    Function::NativeFunction(n) => {
                        // walk the generated checks: argument i gets a value that fits nothing it could ask for
                        let mut params: Vec<(String, String)> = Vec::new();
                        for i in 0..n.arity {
                            let mut args: Vec<Value> = params.iter().map(|(_, c)| fitting(c)).collect();
                            // a native function value fits no constraint used for numbers or matrices;
                            // a measurement fits none at all
                            args.push(Value::Measurement(common::variable::value::measurement::Measurement::new(
                                Complex64::new(1.0, 0.0),
                                all_units()[4],
                            )));
                            while args.len() < n.arity {
                                args.push(Value::Number(Complex64::new(1.0, 0.0)));
                            }
                            match (n.function)(1, 1, args) {
                                Err(EvaluationError::NativeFunctionIncorrectParameterType(e)) if e.idx == i + 1 => {
                                    params.push((e.name.clone(), constraint_name(&e.constraint).to_string()));
                                }
                                _ => params.push(("?".to_string(), "unknown".to_string())),
                            }
                        }
                        let ps: Vec<String> = params
                            .iter()
                            .map(|(n, c)| format!("{{\"name\":{},\"constraint\":{}}}", jstr(n), jstr(c)))
                            .collect();
                        rows.push(format!(
                            "{{\"key\":{},\"constant\":{},\"native\":{},\"arity\":{},\"params\":[{}]}}",
                            jstr(key),
                            var.constant,
                            jstr(n.name),
                            n.arity,
                            ps.join(",")
                        ));
                    }
                    Function::UserDefinedFunction(_) => rows.push(format!("{{\"key\":{},\"constant\":{},\"user\":true}}", jstr(key), var.constant)),
                }
            }
            Value::Number(z) => rows.push(format!(
                "{{\"key\":{},\"constant\":{},\"re\":\"{:016x}\",\"im\":\"{:016x}\"}}",
                jstr(key),
                var.constant,
                z.re.to_bits(),
                z.im.to_bits()
            )),
            other => rows.push(format!("{{\"key\":{},\"constant\":{},\"other\":{}}}", jstr(key), var.constant, jstr(&value(other)))),
        }
    }
    rows
}

fn ranges(pred: impl Fn(char) -> bool) -> Vec<(u32, u32)> {
    let mut out: Vec<(u32, u32)> = Vec::new();
    let mut start: Option<u32> = None;
    for cp in 0..=0x110000u32 {
        let yes = char::from_u32(cp).map(|c| pred(c)).unwrap_or(false);
        match (yes, start) {
            (true, None) => start = Some(cp),
            (false, Some(s)) => {
                out.push((s, cp - 1));
                start = None;
            }
            _ => {}
        }
    }
    out
}

fn ranges_json(r: &[(u32, u32)]) -> String {
    r.iter().map(|(a, b)| format!("[{},{}]", a, b)).collect::<Vec<_>>().join(",")
}

pub fn dump(out_path: &str) {
    let extra: Vec<String> = std::env::var("KEYWORD_CANDIDATES")
        .ok()
        .and_then(|p| std::fs::read_to_string(p).ok())
        .map(|s| s.lines().map(|l| l.to_string()).filter(|l| !l.is_empty()).collect())
        .unwrap_or_default();
    let mut o = String::new();
    o.push_str("{\n");
    write!(o, "\"units\":[{}],\n", unit_rows().join(",\n")).unwrap();
    write!(o, "\"keywords\":[{}],\n", keyword_rows(&extra).join(",\n")).unwrap();
    write!(o, "\"builtins\":[{}],\n", builtin_rows().join(",\n")).unwrap();
    write!(o, "\"alnum\":[{}],\n", ranges_json(&ranges(|c| c.is_alphanumeric()))).unwrap();
    write!(o, "\"numeric\":[{}]\n", ranges_json(&ranges(|c| c.is_numeric()))).unwrap();
    o.push_str("}\n");
    std::fs::write(out_path, o).unwrap();
}
