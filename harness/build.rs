fn main() {
    let repo = std::env::var("CALC_REPO").unwrap_or_else(|_| "/repo".to_string());
    println!("cargo:rustc-env=CALC_REPO={}", repo);
    println!("cargo:rerun-if-env-changed=CALC_REPO");
    println!("cargo:rerun-if-changed={}/calculator/src/builtin_math.rs", repo);
}
